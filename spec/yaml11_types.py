"""Reference for YAML 1.1 implicit typing (http://yaml.org/type/), written from the type
repository pages, *restricted to PyYAML's documented dialect*.  Deviations from the
repository text, all long-standing library behaviour and consistent with the list of
types in property C08:

 D1  bool: the single-letter forms y|Y|n|N are not booleans.
 D2  float (base 10): a '.' is mandatory and an exponent needs an explicit sign
     (repository: "[-+]?([0-9][0-9_]*)?\\.[0-9.]*([eE][-+][0-9]+)?").
 D3  float: the fraction is [0-9_]* (the repository's [0-9.]* admits "1.2.3"), and the
     leading-dot form ".5" takes no sign.
 D4  timestamp: optional blanks are allowed before a numeric zone offset as well as
     before 'Z' (the repository's own example "2001-12-14 21:59:43.10 -5" needs it).

Everything here is independent of /repo: regexes are spelled out again, values are
computed digit by digit.
"""
import datetime
import re

T = 'tag:yaml.org,2002:'

SPEC = {
    'null': r'~|null|Null|NULL|',
    'bool': r'yes|Yes|YES|no|No|NO|true|True|TRUE|false|False|FALSE|on|On|ON|off|Off|OFF',
    'int': r'[-+]?0b[0-1_]+'
           r'|[-+]?0[0-7_]+'
           r'|[-+]?(?:0|[1-9][0-9_]*)'
           r'|[-+]?0x[0-9a-fA-F_]+'
           r'|[-+]?[1-9][0-9_]*(?::[0-5]?[0-9])+',
    'float': r'[-+]?[0-9][0-9_]*\.[0-9_]*(?:[eE][-+][0-9]+)?'
             r'|\.[0-9][0-9_]*(?:[eE][-+][0-9]+)?'
             r'|[-+]?[0-9][0-9_]*(?::[0-5]?[0-9])+\.[0-9_]*'
             r'|[-+]?\.(?:inf|Inf|INF)'
             r'|\.(?:nan|NaN|NAN)',
    'timestamp': r'[0-9][0-9][0-9][0-9]-[0-9][0-9]-[0-9][0-9]'
                 r'|[0-9][0-9][0-9][0-9]-[0-9][0-9]?-[0-9][0-9]?'
                 r'(?:[Tt]|[ \t]+)[0-9][0-9]?:[0-9][0-9]:[0-9][0-9](?:\.[0-9]*)?'
                 r'(?:[ \t]*(?:Z|[-+][0-9][0-9]?(?::[0-9][0-9])?))?',
    'merge': r'<<',
    'value': r'=',
}
ORDER = ['null', 'bool', 'int', 'float', 'timestamp', 'merge', 'value']
COMPILED = {k: re.compile(v) for k, v in SPEC.items()}


def matches(kind, text):
    return COMPILED[kind].fullmatch(text) is not None


def classify(text):
    """'null' | 'bool' | ... | 'str' for the text of an untagged plain scalar."""
    for k in ORDER:
        if COMPILED[k].fullmatch(text) is not None:
            return k
    return 'str'


def _digit(c):
    o = ord(c)
    if 48 <= o <= 57:
        return o - 48
    if 97 <= o <= 102:
        return o - 87
    if 65 <= o <= 70:
        return o - 55
    raise AssertionError('not a digit')


def _digits(s, base):
    n = 0
    for c in s:
        d = _digit(c)
        assert d < base
        n = n * base + d
    return n


def int_value(text):
    """Value of a member of SPEC['int']; None when the repository defines none
    (no digit at all after the base prefix, e.g. '0x_')."""
    s = text.replace('_', '')
    sign = 1
    if s[:1] in ('-', '+'):
        if s[0] == '-':
            sign = -1
        s = s[1:]
    if s == '0':
        return 0
    if s.startswith('0b'):
        return sign * _digits(s[2:], 2) if len(s) > 2 else None
    if s.startswith('0x'):
        return sign * _digits(s[2:], 16) if len(s) > 2 else None
    if s.startswith('0'):
        return sign * _digits(s, 8)
    if ':' in s:
        n = 0
        for part in s.split(':'):
            n = n * 60 + _digits(part, 10)
        return sign * n
    return sign * _digits(s, 10)


def float_value(text):
    """Value of a member of SPEC['float'].  Decimal strings are converted with float()
    (trusted); sexagesimal by Horner in base 60 (rounding is outside the claim: compare
    with a tolerance)."""
    s = text.replace('_', '').lower()
    sign = 1.0
    if s[:1] in ('-', '+'):
        if s[0] == '-':
            sign = -1.0
        s = s[1:]
    if s == '.inf':
        return sign * float('inf')
    if s == '.nan':
        return float('nan')
    if ':' in s:
        parts = s.split(':')
        v = 0.0
        for part in parts:
            v = v * 60 + float(part)
        return sign * v
    return sign * float(s)


BOOL = {'yes': True, 'no': False, 'true': True, 'false': False, 'on': True, 'off': False}

_TS = re.compile(
    r'(?P<y>[0-9]{4})-(?P<mo>[0-9][0-9]?)-(?P<d>[0-9][0-9]?)'
    r'(?:(?:[Tt]|[ \t]+)(?P<h>[0-9][0-9]?):(?P<mi>[0-9][0-9]):(?P<s>[0-9][0-9])(?:\.(?P<f>[0-9]*))?'
    r'(?:[ \t]*(?:(?P<z>Z)|(?P<sg>[-+])(?P<zh>[0-9][0-9]?)(?::(?P<zm>[0-9][0-9]))?))?)?')


def _dim(y, m):
    if m == 2:
        return 29 if (y % 4 == 0 and (y % 100 != 0 or y % 400 == 0)) else 28
    return 30 if m in (4, 6, 9, 11) else 31


def timestamp_value(text):
    """(kind, value): ('date', date) | ('datetime', datetime) | ('invalid', reason) for a
    member of SPEC['timestamp']: fields that do not denote a calendar instant are
    'invalid' (the repository gives them no value)."""
    m = _TS.fullmatch(text)
    g = m.groupdict()
    y, mo, d = _digits(g['y'], 10), _digits(g['mo'], 10), _digits(g['d'], 10)
    if not (1 <= y <= 9999 and 1 <= mo <= 12 and 1 <= d <= _dim(y, mo)):
        return 'invalid', 'date fields'
    if g['h'] is None:
        return 'date', datetime.date(y, mo, d)
    h, mi, s = _digits(g['h'], 10), _digits(g['mi'], 10), _digits(g['s'], 10)
    if not (h <= 23 and mi <= 59 and s <= 59):
        return 'invalid', 'time fields'
    f = (g['f'] or '')[:6]
    us = _digits(f + '0' * (6 - len(f)), 10) if f else 0
    tz = None
    if g['z']:
        tz = datetime.timezone.utc
    elif g['sg']:
        zh = _digits(g['zh'], 10)
        zm = _digits(g['zm'], 10) if g['zm'] else 0
        minutes = zh * 60 + zm
        if minutes >= 24 * 60:
            return 'invalid', 'zone offset'
        delta = datetime.timedelta(minutes=minutes)
        tz = datetime.timezone(-delta if g['sg'] == '-' else delta)
    return 'datetime', datetime.datetime(y, mo, d, h, mi, s, us, tzinfo=tz)


def value(kind, text):
    """('ok', v) | ('novalue', why)"""
    if kind == 'null':
        return 'ok', None
    if kind == 'bool':
        return 'ok', BOOL[text.lower()]
    if kind == 'int':
        v = int_value(text)
        return ('ok', v) if v is not None else ('novalue', 'no digits')
    if kind == 'float':
        return 'ok', float_value(text)
    if kind == 'timestamp':
        k, v = timestamp_value(text)
        return ('ok', v) if k != 'invalid' else ('novalue', v)
    return 'ok', text
