"""Reference recognisers for C09 (independent of /repo's parser): token nesting
discipline, the event grammar, and line/column recount."""

BREAKS = '\n\x85\u2028\u2029'


def linecol(s, idx):
    """(line, column) of position idx of s by counting line breaks in s[:idx]:
    LF, NEL, LS, PS and a CR not followed by LF are breaks (so CR LF counts once, at the
    LF); the column is the number of characters since the last break, byte order marks
    (U+FEFF) not counted."""
    line = 0
    col = 0
    i = 0
    n = len(s)
    while i < idx:
        ch = s[i]
        if ch == '\n' or ch == '\x85' or ch == '\u2028' or ch == '\u2029':
            line += 1
            col = 0
        elif ch == '\r' and not (i + 1 < n and s[i + 1] == '\n'):
            line += 1
            col = 0
        elif ch != '\ufeff':
            col += 1
        i += 1
    return line, col


def check_tokens(tokens, complete):
    """tokens: list of token class names.  Nesting discipline of the bracket tokens;
    `complete` (the input also parses) additionally demands everything closed."""
    if not tokens or tokens[0] != 'StreamStartToken':
        return 'first token is not STREAM-START'
    if tokens.count('StreamStartToken') != 1:
        return 'more than one STREAM-START'
    if 'StreamEndToken' in tokens and tokens[-1] != 'StreamEndToken':
        return 'token after STREAM-END'
    if tokens.count('StreamEndToken') > 1:
        return 'more than one STREAM-END'
    if not complete:
        # A token stream that the parser rejects is by definition not in the documented
        # grammar (e.g. "[ - a" scans to FLOW-SEQUENCE-START BLOCK-ENTRY SCALAR), so only
        # the stream brackets are demanded of inputs that scan but do not parse.
        return None
    stack = []
    for t in tokens:
        if t in ('BlockSequenceStartToken', 'BlockMappingStartToken'):
            if 'flow' in [k for k in stack]:
                return 'block collection started inside a flow collection'
            stack.append('block')
        elif t in ('FlowSequenceStartToken', 'FlowMappingStartToken'):
            stack.append('flow')
            stack.append(']' if t == 'FlowSequenceStartToken' else '}')
        elif t == 'BlockEndToken':
            if not stack or stack[-1] != 'block':
                return 'BLOCK-END without an open block collection'
            stack.pop()
        elif t in ('FlowSequenceEndToken', 'FlowMappingEndToken'):
            want = ']' if t == 'FlowSequenceEndToken' else '}'
            if not stack or stack[-1] not in (']', '}'):
                # the scanner emits a stray closer as a token; the parser rejects it
                if complete:
                    return 'flow closer without opener in a stream that parses'
                continue
            if stack[-1] != want:
                if complete:
                    return 'mismatched flow closer in a stream that parses'
                stack.pop()
                stack.pop()
                continue
            stack.pop()
            stack.pop()
        elif t in ('DocumentStartToken', 'DocumentEndToken', 'DirectiveToken'):
            if complete and stack:
                return 'document marker inside an open collection in a stream that parses'
    if complete and stack:
        return 'collections left open at STREAM-END in a stream that parses'
    return None


def check_events(events):
    """events: list of (class name, ...)  - the event grammar:
    stream := STREAM-START document* STREAM-END
    document := DOCUMENT-START node DOCUMENT-END
    node := ALIAS | SCALAR | SEQUENCE-START node* SEQUENCE-END | MAPPING-START (node node)* MAPPING-END"""
    pos = [0]
    n = len(events)

    def peek():
        return events[pos[0]] if pos[0] < n else None

    def node(depth):
        e = peek()
        if e in ('AliasEvent', 'ScalarEvent'):
            pos[0] += 1
            return None
        if e == 'SequenceStartEvent':
            pos[0] += 1
            while peek() not in ('SequenceEndEvent', None):
                r = node(depth + 1)
                if r:
                    return r
            if peek() != 'SequenceEndEvent':
                return 'sequence not closed'
            pos[0] += 1
            return None
        if e == 'MappingStartEvent':
            pos[0] += 1
            while peek() not in ('MappingEndEvent', None):
                r = node(depth + 1)
                if r:
                    return r
                if peek() in ('MappingEndEvent', None):
                    return 'mapping key without a value node'
                r = node(depth + 1)
                if r:
                    return r
            if peek() != 'MappingEndEvent':
                return 'mapping not closed'
            pos[0] += 1
            return None
        return 'node expected, found %s' % e

    if peek() != 'StreamStartEvent':
        return 'first event is not STREAM-START'
    pos[0] += 1
    while peek() == 'DocumentStartEvent':
        pos[0] += 1
        r = node(0)
        if r:
            return r
        if peek() != 'DocumentEndEvent':
            return 'DOCUMENT-END expected, found %s' % peek()
        pos[0] += 1
    if peek() != 'StreamEndEvent':
        return 'STREAM-END expected, found %s' % peek()
    pos[0] += 1
    if pos[0] != n:
        return 'events after STREAM-END'
    return None


# ---------------------------------------------------------------------------------------------
# Reference recogniser of the documented *token* grammar (the LL(1) grammar in the comment at the
# top of lib/yaml/parser.py), written independently of the parser's state machine.
# tokens: list of kind names without the 'Token' suffix, e.g. ['StreamStart', 'Scalar', 'StreamEnd'].
# recognise(tokens) -> ('ok', None) or ('error', i): i = index of the first token that cannot
# continue any sentence of the grammar (viable-prefix property of LL(1) parsing).
class _Reject(Exception):
    def __init__(self, pos):
        self.pos = pos


NODE_FIRST_FLOW = ('Alias', 'Anchor', 'Tag', 'Scalar', 'FlowSequenceStart', 'FlowMappingStart')
NODE_FIRST_BLOCK = NODE_FIRST_FLOW + ('BlockSequenceStart', 'BlockMappingStart')


class _R:
    def __init__(self, toks):
        self.t = toks
        self.i = 0

    def peek(self):
        return self.t[self.i] if self.i < len(self.t) else None

    def eat(self, kind):
        if self.peek() != kind:
            raise _Reject(self.i)
        self.i += 1

    def fail(self):
        raise _Reject(self.i)

    # stream ::= STREAM-START implicit_document? explicit_document* STREAM-END
    def stream(self):
        self.eat('StreamStart')
        if self.peek() not in ('Directive', 'DocumentStart', 'StreamEnd'):
            self.node(block=True, indentless=False)          # implicit document
            while self.peek() == 'DocumentEnd':
                self.i += 1
        while self.peek() != 'StreamEnd':
            ndir = 0
            while self.peek() == 'Directive':
                ndir += 1
                if ndir > 1:
                    self.fail()       # the stub serves %YAML directives only: a second one is a duplicate
                self.i += 1
            self.eat('DocumentStart')
            if self.peek() not in ('Directive', 'DocumentStart', 'DocumentEnd', 'StreamEnd'):
                self.node(block=True, indentless=False)
            while self.peek() == 'DocumentEnd':
                self.i += 1
        self.eat('StreamEnd')
        if self.i != len(self.t):
            self.fail()

    # node ::= ALIAS | properties content? | content
    def node(self, block, indentless):
        k = self.peek()
        if k == 'Alias':
            self.i += 1
            return
        props = False
        if k == 'Tag':
            self.i += 1
            props = True
            if self.peek() == 'Anchor':
                self.i += 1
        elif k == 'Anchor':
            self.i += 1
            props = True
            if self.peek() == 'Tag':
                self.i += 1
        k = self.peek()
        if k == 'Scalar':
            self.i += 1
        elif k == 'FlowSequenceStart':
            self.flow_sequence()
        elif k == 'FlowMappingStart':
            self.flow_mapping()
        elif block and k == 'BlockSequenceStart':
            self.block_sequence()
        elif block and k == 'BlockMappingStart':
            self.block_mapping()
        elif block and indentless and k == 'BlockEntry':
            self.indentless_sequence()
        elif not props:
            self.fail()                # a node was required and nothing can start one

    def block_sequence(self):
        self.eat('BlockSequenceStart')
        while self.peek() == 'BlockEntry':
            self.i += 1
            if self.peek() not in ('BlockEntry', 'BlockEnd'):
                self.node(block=True, indentless=False)
        self.eat('BlockEnd')

    def indentless_sequence(self):
        while self.peek() == 'BlockEntry':
            self.i += 1
            if self.peek() not in ('BlockEntry', 'Key', 'Value', 'BlockEnd'):
                self.node(block=True, indentless=False)

    def block_mapping(self):
        # block_mapping ::= BLOCK-MAPPING-START (KEY node? (VALUE node?)?)* BLOCK-END
        # (the comment in parser.py also lets a VALUE stand without a KEY; the property demands
        # "KEY before VALUE", which is what is encoded here)
        self.eat('BlockMappingStart')
        while self.peek() == 'Key':
            self.i += 1
            if self.peek() not in ('Key', 'Value', 'BlockEnd'):
                self.node(block=True, indentless=True)
            if self.peek() == 'Value':
                self.i += 1
                if self.peek() not in ('Key', 'Value', 'BlockEnd'):
                    self.node(block=True, indentless=True)
        self.eat('BlockEnd')

    def flow_entry(self, closer):
        """flow_node | KEY flow_node? (VALUE flow_node?)?"""
        if self.peek() == 'Key':
            self.i += 1
            if self.peek() not in ('Value', 'FlowEntry', closer):
                self.node(block=False, indentless=False)
            if self.peek() == 'Value':
                self.i += 1
                if self.peek() not in ('FlowEntry', closer):
                    self.node(block=False, indentless=False)
        else:
            self.node(block=False, indentless=False)

    def flow_sequence(self):
        self.eat('FlowSequenceStart')
        first = True
        while self.peek() != 'FlowSequenceEnd':
            if not first:
                self.eat('FlowEntry')
                if self.peek() == 'FlowSequenceEnd':
                    break
            self.flow_entry('FlowSequenceEnd')
            first = False
        self.eat('FlowSequenceEnd')

    def flow_mapping(self):
        self.eat('FlowMappingStart')
        first = True
        while self.peek() != 'FlowMappingEnd':
            if not first:
                self.eat('FlowEntry')
                if self.peek() == 'FlowMappingEnd':
                    break
            self.flow_entry('FlowMappingEnd')
            first = False
        self.eat('FlowMappingEnd')


def recognise(tokens):
    r = _R(list(tokens))
    try:
        r.stream()
    except _Reject as e:
        return 'error', e.pos
    return 'ok', None
