"""Python `re` pattern -> z3 regular expression over Unicode strings (engine E2).

The pattern is parsed with the interpreter's own sre parser and translated node by
node; an unsupported node raises Unsupported (the query is then inconclusive, never
`unsat`).  Semantics encoded: `pattern.match(s)` for a pattern of the form ^...$ :
'^' matches at position 0 only (no MULTILINE), '$' matches at the end or just before
a final '\\n'.
"""
import re
import re._constants as sc
import re._parser as sp
import time

import z3


class Unsupported(Exception):
    pass


def _lit(cp):
    return z3.Re(z3.StringVal(chr(cp)))


RE_SORT = z3.ReSort(z3.StringSort())
EMPTY = z3.Re(z3.StringVal(''))
ANYCHAR = z3.AllChar(RE_SORT)

CATEGORY = {
    sc.CATEGORY_DIGIT: None,   # unicode digits: not needed by the library's patterns
}


def _cls(items):
    rs = []
    neg = False
    for op, av in items:
        if op is sc.NEGATE:
            neg = True
        elif op is sc.LITERAL:
            rs.append(_lit(av))
        elif op is sc.RANGE:
            rs.append(z3.Range(chr(av[0]), chr(av[1])))
        else:
            raise Unsupported('class item %s' % (op,))
    r = rs[0] if len(rs) == 1 else z3.Union(*rs)
    if neg:
        r = z3.Intersect(ANYCHAR, z3.Complement(r))
    return r


_STRICT_END = [False]
_IGNORECASE = [False]
_ALLCHARS = []


def _matching(char_pattern):
    """exact set of code points a one-character pattern matches under re.IGNORECASE, by asking re itself
    (one findall over the string of all code points) -> z3 regex as a union of ranges"""
    if not _ALLCHARS:
        _ALLCHARS.append(''.join(map(chr, range(0x110000))))
    cps = sorted(set(map(ord, re.compile(char_pattern, re.IGNORECASE | re.DOTALL).findall(_ALLCHARS[0]))))
    if not cps:
        raise Unsupported('empty class')
    rs = []
    lo = prev = cps[0]
    for c in cps[1:] + [None]:
        if c is not None and c == prev + 1:
            prev = c
            continue
        rs.append(_lit(lo) if lo == prev else z3.Range(chr(lo), chr(prev)))
        if c is not None:
            lo = prev = c
    return rs[0] if len(rs) == 1 else z3.Union(*rs)


def _cls_source(items):
    out = '['
    for op, av in items:
        if op is sc.NEGATE:
            out += '^'
        elif op is sc.LITERAL:
            out += re.escape(chr(av))
        elif op is sc.RANGE:
            out += re.escape(chr(av[0])) + '-' + re.escape(chr(av[1]))
        else:
            raise Unsupported('class item %s' % (op,))
    return out + ']'


def _seq(p, is_last_seq):
    items = list(p)
    out = []
    for i, (op, av) in enumerate(items):
        out.append(_one(op, av, is_last_seq and i == len(items) - 1))
    if not out:
        return EMPTY
    r = out[0]
    for x in out[1:]:
        r = z3.Concat(r, x)
    return r


def _one(op, av, last):
    if _IGNORECASE[0] and op is sc.LITERAL:
        return _matching(re.escape(chr(av)))
    if _IGNORECASE[0] and op is sc.NOT_LITERAL:
        return _matching('[^%s]' % re.escape(chr(av)))
    if _IGNORECASE[0] and op is sc.IN:
        return _matching(_cls_source(av))
    if op is sc.LITERAL:
        return _lit(av)
    if op is sc.NOT_LITERAL:
        return z3.Intersect(ANYCHAR, z3.Complement(_lit(av)))
    if op is sc.ANY:
        return z3.Intersect(ANYCHAR, z3.Complement(_lit(10)))
    if op is sc.IN:
        return _cls(av)
    if op is sc.BRANCH:
        alts = [_seq(a, False) for a in av[1]]
        return z3.Union(*alts) if len(alts) > 1 else alts[0]
    if op is sc.SUBPATTERN:
        return _seq(av[3], False)
    if op is sc.MAX_REPEAT or op is sc.MIN_REPEAT:
        lo, hi, sub = av
        r = _seq(sub, False)
        if hi is sc.MAXREPEAT:
            if lo == 0:
                return z3.Star(r)
            if lo == 1:
                return z3.Plus(r)
            return z3.Concat(z3.Loop(r, lo, lo), z3.Star(r))
        if lo == 0 and hi == 1:
            return z3.Option(r)
        return z3.Loop(r, lo, hi)
    if op is sc.AT:
        if av is sc.AT_BEGINNING or av is sc.AT_BEGINNING_STRING:
            return EMPTY
        if av is sc.AT_END:
            if not last:
                raise Unsupported('$ not at the end of the pattern')
            return EMPTY if _STRICT_END[0] else z3.Option(_lit(10))
        if av is sc.AT_END_STRING:
            return EMPTY
        raise Unsupported('anchor %s' % (av,))
    raise Unsupported('node %s' % (op,))


def to_z3(pattern, flags=0, full=False, strict_end=False):
    """z3 regex for `re.compile(pattern, flags).match` (anchored patterns) or, with
    full=True, for `fullmatch` of an unanchored pattern.  strict_end=True drops the
    "or just before a final newline" alternative of '$' (the language restricted to
    strings that do not end in a line feed, which is all a plain scalar can be)."""
    _STRICT_END[0] = strict_end
    if isinstance(pattern, re.Pattern):
        flags = pattern.flags
        pattern = pattern.pattern
    if flags & (re.MULTILINE | re.DOTALL | re.LOCALE | re.ASCII):
        raise Unsupported('flags %r' % flags)
    _IGNORECASE[0] = bool(flags & re.IGNORECASE)
    tree = sp.parse(pattern, flags)
    items = list(tree)
    if not full:
        if not items or items[0][0] is not sc.AT or items[0][1] not in (sc.AT_BEGINNING, sc.AT_BEGINNING_STRING):
            raise Unsupported('pattern is not anchored with ^')
        if items[-1][0] is not sc.AT:
            raise Unsupported('pattern is not anchored with $')
    return _seq(tree, True)


def second_opinion(solver, timeout_s=8):
    """The same query, printed as SMT-LIB2, decided by the cvc5 binary (strings + regex theory).
    -> 'unsat' | 'sat' | 'unknown' | 'unavailable'."""
    import shutil
    import subprocess
    import tempfile
    exe = shutil.which('cvc5')
    if not exe:
        return 'unavailable'
    fd, path = tempfile.mkstemp(suffix='.smt2', prefix='verif_q_')
    try:
        with open(fd, 'w') as f:
            f.write('(set-logic QF_SLIA)\n' + solver.to_smt2())
        p = subprocess.run([exe, '--strings-exp', '--tlimit=%d' % (timeout_s * 1000), path], capture_output=True, text=True, timeout=timeout_s + 10)
        out = p.stdout.strip().splitlines()
        if '(error' in p.stdout or '(error' in p.stderr:
            return 'unknown'
        return out[0] if out and out[0] in ('sat', 'unsat') else 'unknown'
    except Exception:
        return 'unknown'
    finally:
        try:
            import os
            os.unlink(path)
        except OSError:
            pass


LAST_SECOND = [None]


def solve(constraints, var, timeout_ms=60000):
    """-> (status, witness, seconds) with status in {'unsat', 'sat', 'unknown'}.  An `unsat`
    of z3 is cross-checked with cvc5; a disagreement makes the query 'unknown' (inconclusive)."""
    s = z3.Solver()
    s.set('timeout', timeout_ms)
    for c in constraints:
        s.add(c)
    t0 = time.time()
    r = s.check()
    dt = time.time() - t0
    LAST_SECOND[0] = None
    if str(r) == 'unsat':
        so = second_opinion(s)
        LAST_SECOND[0] = so
        if so == 'sat':
            return 'unknown', 'z3 says unsat, cvc5 says sat', time.time() - t0
        dt = time.time() - t0
    if str(r) == 'sat':
        m = s.model()
        w = m.eval(var, model_completion=True)
        return 'sat', w.as_string() if hasattr(w, 'as_string') else str(w), dt
    return str(r), None, dt


def z3str_to_py(w):
    """z3 prints non-ASCII as \\u{XXXX}"""
    return re.sub(r'\\u\{([0-9a-fA-F]+)\}', lambda m: chr(int(m.group(1), 16)), w)


def validate(pattern, zre, samples, full=False):
    """Serval-style translator validation: the compiled pattern and the z3 regex must
    agree on every sample.  Returns the number of samples checked; raises on disagreement."""
    rx = pattern if isinstance(pattern, re.Pattern) else re.compile(pattern)
    n = 0
    for smp in samples:
        want = (rx.fullmatch(smp) if full else rx.match(smp)) is not None
        got = z3.simplify(z3.InRe(z3.StringVal(smp), zre))
        if z3.is_true(got) != want or not (z3.is_true(got) or z3.is_false(got)):
            s = z3.Solver()
            s.add(z3.InRe(z3.StringVal(smp), zre))
            got2 = str(s.check()) == 'sat'
            if got2 != want:
                raise AssertionError('translator disagrees with re on %r for %s: re=%r z3=%r' % (smp, rx.pattern[:40], want, got2))
        n += 1
    return n


# ---------------------------------------------------------------------------------------------
# termination of the backtracking matcher: ambiguity of unbounded repetitions
#
# `re` explores the factorisations of the input into iterations of a repeated group one after
# the other.  If some word has two different factorisations into words of the body X, then its
# n-th power has 2^n of them, and an input that makes the match fail after the loop forces the
# matcher through all of them: the match does not finish.  X* is ambiguous exactly when
#     exists a, e, r:  a in X,  a.e in X,  e != "",  r in X*,  e.r in X*
# (look at the first iteration where two factorisations differ).  `unsat` = no such word: the
# repetition is unambiguous, backtracking over it is linear in the number of iterations.

def _cat(a, b):
    return b if a is None else z3.Concat(a, b)


def repeats(pattern, flags=0):
    """-> [(path, prefix_regex or None, body_regex, alternatives)] for every unbounded repetition in the pattern"""
    _STRICT_END[0] = False
    if isinstance(pattern, re.Pattern):
        flags = pattern.flags
        pattern = pattern.pattern
    tree = sp.parse(pattern, flags)
    out = []

    def walk(seq, prefix, path):
        items = list(seq)
        for i, (op, av) in enumerate(items):
            if op is sc.MAX_REPEAT or op is sc.MIN_REPEAT:
                lo, hi, sub = av
                if hi is sc.MAXREPEAT or hi > 64:
                    alts = []
                    inner = list(sub)
                    while len(inner) == 1 and inner[0][0] is sc.SUBPATTERN:
                        inner = list(inner[0][1][3])
                    if len(inner) == 1 and inner[0][0] is sc.BRANCH:
                        alts = [_seq(a, False) for a in inner[0][1][1]]
                    out.append((path + '/%d' % i, prefix, _seq(sub, False), alts))
                walk(sub, prefix, path + '/%d*' % i)
            elif op is sc.SUBPATTERN:
                walk(av[3], prefix, path + '/%d(' % i)
            elif op is sc.BRANCH:
                for k, alt in enumerate(av[1]):
                    walk(alt, prefix, path + '/%d|%d' % (i, k))
            prefix = _cat(prefix, _one(op, av, True))
    walk(tree, None, '')
    return out


def ambiguous_repeat(prefix, body, alts, timeout_ms=20000):
    """-> (status, (prefix word, ambiguous word) or None, seconds)"""
    a, e, r, p = z3.String('a'), z3.String('e'), z3.String('r'), z3.String('p')
    star = z3.Star(body)
    cons = [z3.InRe(a, body), z3.InRe(z3.Concat(a, e), body), z3.Length(e) > 0, z3.InRe(r, star), z3.InRe(z3.Concat(e, r), star)]
    if prefix is not None:
        cons.append(z3.InRe(p, prefix))
    else:
        cons.append(p == z3.StringVal(''))
    t0 = time.time()
    worst = 'unsat'
    queries = [cons]
    for i in range(len(alts)):
        for j in range(i + 1, len(alts)):
            queries.append([z3.InRe(a, alts[i]), z3.InRe(a, alts[j]), z3.Length(a) > 0, e == z3.StringVal(''), r == z3.StringVal(''), cons[-1]])
    n = 0
    for q in queries:
        s = z3.Solver()
        s.set('timeout', timeout_ms)
        s.add(*q)
        res = str(s.check())
        n += 1
        if res == 'sat':
            m = s.model()
            g = lambda v: z3str_to_py(m.eval(v, model_completion=True).as_string())
            return 'sat', (g(p), g(a) + g(e) + g(r)), time.time() - t0, n
        if res == 'unsat':
            so = second_opinion(s)
            n += 1
            if so == 'sat':
                worst = 'unknown'
        else:
            worst = 'unknown'
    return worst, None, time.time() - t0, n
