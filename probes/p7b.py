import yaml
from yaml.tokens import *
from yaml.parser import Parser, ParserError
from yaml.error import Mark
KINDS = [DocumentStartToken, DocumentEndToken, BlockSequenceStartToken, BlockMappingStartToken, BlockEndToken,
         FlowSequenceStartToken, FlowMappingStartToken, FlowSequenceEndToken, FlowMappingEndToken, KeyToken, ValueToken,
         BlockEntryToken, FlowEntryToken, 'alias', 'anchor', 'tag', 'scalar', 'directive']
class Src(Parser):
    def __init__(self, toks):
        Parser.__init__(self); self.toks = toks
    def check_token(self, *choices):
        if self.toks:
            if not choices: return True
            for c in choices:
                if isinstance(self.toks[0], c): return True
        return False
    def peek_token(self): return self.toks[0] if self.toks else None
    def get_token(self): return self.toks.pop(0) if self.toks else None
def mk(k, i):
    m = Mark('x', i, 0, i, None, None); m2 = Mark('x', i+1, 0, i+1, None, None)
    K = None
    for j in range(18):
        if k == j:
            K = KINDS[j]; break
    if K == 'alias': return AliasToken('a', m, m2)
    if K == 'anchor': return AnchorToken('a', m, m2)
    if K == 'tag': return TagToken(('!', 't'), m, m2)
    if K == 'scalar': return ScalarToken('v', True, m, m2)
    if K == 'directive': return DirectiveToken('YAML', (1, 1), m, m2)
    return K(m, m2)
def pr(n: int, k0: int, k1: int, k2: int, k3: int) -> str:
    """
    pre: 0 <= n <= 4
    pre: 0 <= k0 < 18 and 0 <= k1 < 18 and 0 <= k2 < 18 and 0 <= k3 < 18
    post: _ == 'ok'
    """
    ks = [k0, k1, k2, k3][:n]
    m0 = Mark('x', 0, 0, 0, None, None)
    toks = [StreamStartToken(m0, m0)] + [mk(k, i) for i, k in enumerate(ks)]
    n = len(toks)
    toks.append(StreamEndToken(Mark('x', n, 0, n, None, None), Mark('x', n, 0, n, None, None)))
    p = Src(toks)
    try:
        evs = []
        while p.check_event():
            evs.append(p.get_event())
    except yaml.YAMLError:
        return 'ok'
    except Exception as e:
        return 'EXC ' + type(e).__name__
    return 'ok'
