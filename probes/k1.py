import re, time, z3, yaml
import re._parser as sp, re._constants as sc
def tr(p):
    # p: SubPattern -> z3 regex over Unicode strings
    out = []
    for op, av in p:
        out.append(tr1(op, av))
    if not out: return z3.Re(z3.StringVal(''))
    r = out[0]
    for x in out[1:]: r = z3.Concat(r, x)
    return r
def cls(items):
    rs = []
    neg = False
    for op, av in items:
        if op is sc.NEGATE: neg = True
        elif op is sc.LITERAL: rs.append(z3.Re(z3.StringVal(chr(av))))
        elif op is sc.RANGE: rs.append(z3.Range(chr(av[0]), chr(av[1])))
        else: raise NotImplementedError(op)
    r = rs[0] if len(rs) == 1 else z3.Union(*rs)
    if neg: r = z3.Intersect(z3.AllChar(z3.ReSort(z3.StringSort())), z3.Complement(r))
    return r
def tr1(op, av):
    if op is sc.LITERAL: return z3.Re(z3.StringVal(chr(av)))
    if op is sc.IN: return cls(av)
    if op is sc.BRANCH: 
        alts = [tr(a) for a in av[1]]
        return z3.Union(*alts) if len(alts) > 1 else alts[0]
    if op is sc.SUBPATTERN: return tr(av[3])
    if op is sc.MAX_REPEAT:
        lo, hi, sub = av; r = tr(sub)
        if hi is sc.MAXREPEAT:
            return z3.Star(r) if lo == 0 else z3.Plus(r) if lo == 1 else z3.Concat(z3.Loop(r, lo, lo), z3.Star(r))
        if lo == 0 and hi == 1: return z3.Option(r)
        return z3.Loop(r, lo, hi)
    if op is sc.AT: return z3.Re(z3.StringVal(''))   # ^ and $ : anchors handled by full-match semantics (checked separately)
    raise NotImplementedError(op)
R = yaml.resolver.Resolver.yaml_implicit_resolvers
tags = {}
for ch, lst in R.items():
    for tag, rx in lst:
        tags.setdefault(tag, (rx, set()))[1].add(ch)
Z = {}
for tag, (rx, firsts) in tags.items():
    Z[tag] = (tr(sp.parse(rx.pattern, rx.flags)), firsts)
s = z3.String('s')
for tag, (zr, firsts) in Z.items():
    t0 = time.time()
    sol = z3.Solver()
    sol.add(z3.InRe(s, zr))
    cond = []
    for f in firsts:
        if f == '': cond.append(s == z3.StringVal(''))
        elif f is None: cond.append(z3.BoolVal(True))
        else: cond.append(z3.PrefixOf(z3.StringVal(f), s))
    sol.add(z3.Not(z3.Or(*cond)))
    r = sol.check()
    print(tag.split(':')[-1], 'index-hides-match?', r, sol.model()[s] if str(r)=='sat' else '', '%.2fs' % (time.time()-t0))
import itertools
for (a,(za,_)),(b,(zb,_)) in itertools.combinations(Z.items(), 2):
    sol = z3.Solver(); sol.add(z3.InRe(s, za), z3.InRe(s, zb)); t0=time.time(); r = sol.check()
    if str(r) != 'unsat': print('overlap', a.split(':')[-1], b.split(':')[-1], r, sol.model()[s] if str(r)=='sat' else '', '%.2fs' % (time.time()-t0))
# int regex: strings matched on which converter would fail: those with no digit after 0x/0b
intr = Z['tag:yaml.org,2002:int'][0]
sol = z3.Solver(); sol.add(z3.InRe(s, intr)); 
digit = z3.Union(z3.Range('0','9'), z3.Range('a','f'), z3.Range('A','F'))
anyc = z3.Star(z3.AllChar(z3.ReSort(z3.StringSort())))
sol.add(z3.Not(z3.InRe(s, z3.Concat(z3.Option(z3.Union(z3.Re('-'),z3.Re('+'))), z3.Union(z3.Re('0'), z3.Concat(z3.Range('1','9'), anyc), z3.Concat(z3.Re('0'), z3.Union(z3.Re('b'), z3.Re('x')), z3.Star(z3.Re('_')), digit, anyc), z3.Concat(z3.Re('0'), z3.Star(z3.Re('_')), z3.Range('0','7'), anyc), z3.Concat(z3.Re("0"), z3.Plus(z3.Re("_"))))))))
t0=time.time(); r = sol.check(); print('int matched but no digit:', r, sol.model()[s] if str(r)=='sat' else '', '%.2fs' % (time.time()-t0))
