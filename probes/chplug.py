def _install():
    import sys
    from crosshair import core
    from crosshair.tracers import NoTracing
    from crosshair.core import deep_realize
    err_only = ('yaml/scanner.py','yaml/parser.py','yaml/composer.py','yaml/constructor.py','yaml/resolver.py','yaml/reader.py')
    getframe = sys._getframe
    def _fmt(self, other):
        f = getframe(1)
        while f is not None and '/crosshair/' in f.f_code.co_filename:
            f = f.f_back
        if f is not None and f.f_code.co_filename.endswith(err_only) and type(self) is str:
            return '<msg>'
        other = deep_realize(other)
        with NoTracing():
            return str.__mod__(self, other)
    core._PATCH_REGISTRATIONS[str.__mod__] = _fmt
_install()
