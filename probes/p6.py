import yaml
def f1(l, n): return 1
def f2(l, n): return 2
def step(ownA: bool, ownB: bool, ownC: bool, tgt: int, key: int) -> str:
    """
    pre: 0 <= tgt <= 3
    pre: 0 <= key <= 1
    post: _ == 'ok'
    """
    # lattice: S(SafeLoader) <- A <- B ;  A <- C
    S = type('S', (yaml.SafeLoader,), {})
    A = type('A', (S,), {}); B = type('B', (A,), {}); C = type('C', (A,), {})
    if ownA: A.add_constructor('!pre', f1)
    if ownB: B.add_constructor('!pre', f1)
    if ownC: C.add_constructor('!pre', f1)
    classes = [S, A, B, C]
    base_snapshot = dict(yaml.SafeLoader.yaml_constructors)
    before = [dict(c.yaml_constructors) for c in classes]
    own_before = ['yaml_constructors' in c.__dict__ for c in classes]
    T = classes[0] if tgt == 0 else classes[1] if tgt == 1 else classes[2] if tgt == 2 else classes[3]
    tag = '!k0' if key == 0 else '!pre'
    T.add_constructor(tag, f2)
    if yaml.SafeLoader.yaml_constructors != base_snapshot: return 'LEAK-BASE'
    for i, c in enumerate(classes):
        affected = (c is T) or (issubclass(c, T) and not any(own_before[j] for j, d in enumerate(classes) if d is not T and issubclass(c, d) and issubclass(d, T)))
        exp = dict(before[i])
        if affected: exp[tag] = f2
        if dict(c.yaml_constructors) != exp: return 'BAD %d' % i
    return 'ok'
