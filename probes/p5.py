import yaml
from yaml.nodes import ScalarNode
R = yaml.resolver.Resolver()
def rs(s: str) -> str:
    """
    pre: len(s) <= 3
    post: _ == 'ok'
    """
    tag = R.resolve(ScalarNode, s, (True, False))
    if tag.endswith(':int'):
        try:
            v = yaml.SafeLoader('').construct_object(ScalarNode(tag, s))
        except yaml.YAMLError:
            return 'ok'
        except Exception as e:
            return 'EXC ' + type(e).__name__
    return 'ok'
