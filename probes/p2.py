import yaml
def scan_ok(s: str) -> str:
    """
    pre: len(s) <= 2
    post: _ == 'ok'
    """
    try:
        for t in yaml.scan(s, Loader=yaml.SafeLoader):
            pass
    except yaml.YAMLError:
        return 'ok'
    except Exception as e:
        return 'EXC ' + type(e).__name__
    return 'ok'
