import yaml, types, builtins
from yaml.nodes import ScalarNode
class FakeSys:
    def __init__(self):
        m1 = types.SimpleNamespace(__name__='m1', f=len, g=3)
        b = types.SimpleNamespace(__name__='builtins', eval='EVAL', len='LEN')
        self.modules = {'m1': m1, 'builtins': b, 'a.b': types.SimpleNamespace(__name__='a.b', h=1)}
def nm(x: str) -> str:
    """
    pre: len(x) <= 6
    post: _ in ('ok', 'yamlerr')
    """
    real = yaml.constructor.sys
    fs = FakeSys()
    yaml.constructor.sys = fs
    imported = []
    orig_import = builtins.__import__
    try:
        loader = yaml.FullLoader('')
        before = set(fs.modules)
        try:
            obj = loader.construct_document(ScalarNode('tag:yaml.org,2002:python/name:' + x, ''))
        except yaml.YAMLError:
            return 'yamlerr'
        except Exception as e:
            return 'EXC ' + type(e).__name__
        if set(fs.modules) != before: return 'IMPORTED'
        ok = any(obj is v for m in fs.modules.values() for v in vars(m).values())
        return 'ok' if ok else 'FOREIGN'
    finally:
        yaml.constructor.sys = real
