import yaml, codecs, types
def u8(data, errors='strict', final=False):
    out = []; i = 0; n = len(data)
    while i < n:
        b0 = data[i]
        if b0 < 0x80:
            out.append(b0); i += 1; continue
        if 0xC2 <= b0 <= 0xDF: need, lo, hi, cp = 1, 0x80, 0xBF, b0 & 0x1F
        elif b0 == 0xE0: need, lo, hi, cp = 2, 0xA0, 0xBF, b0 & 0x0F
        elif b0 == 0xED: need, lo, hi, cp = 2, 0x80, 0x9F, b0 & 0x0F
        elif 0xE1 <= b0 <= 0xEF: need, lo, hi, cp = 2, 0x80, 0xBF, b0 & 0x0F
        elif b0 == 0xF0: need, lo, hi, cp = 3, 0x90, 0xBF, b0 & 0x07
        elif b0 == 0xF4: need, lo, hi, cp = 3, 0x80, 0x8F, b0 & 0x07
        elif 0xF1 <= b0 <= 0xF3: need, lo, hi, cp = 3, 0x80, 0xBF, b0 & 0x07
        else:
            raise UnicodeDecodeError('utf-8', b'?', i, i+1, 'invalid start byte')
        j = 1
        while j <= need:
            if i + j >= n:
                if final:
                    raise UnicodeDecodeError('utf-8', b'?', i, n, 'unexpected end of data')
                return ''.join(map(chr, out)), i
            b = data[i+j]
            l, h = (lo, hi) if j == 1 else (0x80, 0xBF)
            if not (l <= b <= h):
                raise UnicodeDecodeError('utf-8', b'?', i, i+j, 'invalid continuation byte')
            cp = (cp << 6) | (b & 0x3F)
            j += 1
        out.append(cp); i += need + 1
    return ''.join(map(chr, out)), i
FAKE = types.SimpleNamespace(BOM_UTF16_LE=codecs.BOM_UTF16_LE, BOM_UTF16_BE=codecs.BOM_UTF16_BE,
    utf_8_decode=u8, utf_16_le_decode=codecs.utf_16_le_decode, utf_16_be_decode=codecs.utf_16_be_decode)
def rd(b: bytes) -> str:
    """
    pre: len(b) <= 2
    pre: not (len(b) == 2 and b[0] >= 0xFE)
    post: _ == 'ok'
    """
    real = yaml.reader.codecs
    yaml.reader.codecs = FAKE
    try:
        r = yaml.reader.Reader(b)
        while r.peek() != '\0':
            r.forward()
    except yaml.YAMLError:
        return 'ok'
    except Exception as e:
        return 'EXC ' + type(e).__name__
    finally:
        yaml.reader.codecs = real
    return 'ok'
