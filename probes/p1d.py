import yaml
from yaml.nodes import ScalarNode, SequenceNode, MappingNode
yaml.constructor.SafeConstructor.yaml_multi_constructors["tag:yaml.org,2002:python/name:"]=yaml.constructor.FullConstructor.construct_python_name
CORE = {'tag:yaml.org,2002:'+x for x in 'null bool int float binary timestamp omap pairs set str seq map'.split()}
def safe_dispatch(tag: str, kind: int) -> str:
    """
    pre: len(tag) <= 48
    pre: 0 <= kind <= 2
    post: _ in ('yamlerr', 'ok')
    """
    loader = yaml.SafeLoader('')
    if kind == 0:
        node = ScalarNode(tag, '')
    elif kind == 1:
        node = SequenceNode(tag, [])
    else:
        node = MappingNode(tag, [])
    try:
        obj = loader.construct_document(node)
    except yaml.YAMLError:
        return 'yamlerr'
    except Exception as e:
        if tag in CORE: return 'ok'
        return 'EXC ' + type(e).__name__
    if tag not in CORE: return 'LEAK'
    return 'ok'
