import yaml
def esc(c: str, h: str) -> str:
    """
    pre: len(c) == 1 and len(h) == 8 and c == 'U'
    post: _ == 'ok'
    """
    s = '"\\' + c + h + '"'
    try:
        for t in yaml.scan(s, Loader=yaml.SafeLoader):
            pass
    except yaml.YAMLError:
        return 'ok'
    except Exception as e:
        return 'EXC ' + type(e).__name__
    return 'ok'
