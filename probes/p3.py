import yaml
from yaml.events import *
class W:
    def __init__(self): self.c = []
    def write(self, d): self.c.append(d)
def rt(s: str, style: int, width: int, au: bool) -> str:
    """
    pre: len(s) <= 2
    pre: 0 <= style <= 4
    pre: all(not (0xD800 <= ord(c) <= 0xDFFF) for c in s)
    pre: 0 <= width <= 12
    post: _ == 'ok'
    """
    st = [None, "'", '"', '|', '>'][style]
    w = W()
    try:
        yaml.emit([StreamStartEvent(), DocumentStartEvent(explicit=False),
               ScalarEvent(None, None, (True, True), s, style=st),
               DocumentEndEvent(explicit=False), StreamEndEvent()], w, width=width, allow_unicode=au)
    except yaml.YAMLError:
        return 'emiterr'
    text = ''.join(w.c)
    try:
        evs = list(yaml.parse(text, Loader=yaml.SafeLoader))
    except yaml.YAMLError as e:
        # surrogates / non printable in s are re-escaped, so reading must succeed
        return 'READFAIL'
    sc = [e for e in evs if isinstance(e, ScalarEvent)]
    if len(sc) != 1: return 'COUNT'
    if sc[0].value != s: return 'DIFF'
    return 'ok'
