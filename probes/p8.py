import yaml
DOC = "a: [1, 'x\r\ny']\r\n--- |\n lité\n...\n"
class S:
    def __init__(self, text, sizes):
        self.t = text; self.p = 0; self.sizes = list(sizes)
    def read(self, n):
        k = n
        if self.sizes:
            k = self.sizes.pop(0)
            if k > n: k = n
        r = self.t[self.p:self.p+k]; self.p += len(r); return r
def sig(stream):
    try:
        return [(type(e).__name__, getattr(e,'value',None), e.start_mark.index, e.start_mark.line, e.start_mark.column) for e in yaml.parse(stream, Loader=yaml.SafeLoader)]
    except yaml.YAMLError as e:
        return ['ERR', type(e).__name__]
REF = sig(DOC)
def chunks(k1: int, k2: int, k3: int, k4: int) -> bool:
    """
    pre: 1 <= k1 <= 30 and 1 <= k2 <= 30 and 1 <= k3 <= 30 and 1 <= k4 <= 30
    post: _
    """
    return sig(S(DOC, [k1, k2, k3, k4])) == REF
