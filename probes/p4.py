import yaml
def rd(b: bytes) -> str:
    """
    pre: len(b) <= 2
    post: _ == 'ok'
    """
    try:
        r = yaml.reader.Reader(b)
        n = 0
        while r.peek() != '\0':
            r.forward(); n += 1
    except yaml.YAMLError:
        return 'ok'
    except Exception as e:
        return 'EXC ' + type(e).__name__
    return 'ok'
