"""./check <property> --tier quick|thorough   |   ./check <property> --replay <path>

Runs every job of harness/<property>.py in parallel worker processes (one symbolic
exploration each), replays counterexamples concretely against /repo, applies the
known-findings file, writes evidence/<property>.json and sets the exit code:
  0  nothing explored violates the property (inconclusive cells are listed)
  1  VIOLATION property=<id> replay=<path>
  2  fault of the machinery (model self-test failed, vacuous cell, counterexample that
     does not replay, worker crash)
"""
import argparse
import ast
import hashlib
import importlib
import json
import os
import subprocess
import sys
import tempfile
import time

HERE = os.path.dirname(os.path.dirname(os.path.abspath(__file__)))
sys.path.insert(0, HERE)
from symex import hlib  # noqa: E402

sys.path.insert(0, hlib.REPO_LIB)
PY_SYM = os.path.join(HERE, '.venv', 'bin', 'python')
PY_CONCRETE = '/venv/bin/python'
NPROC = int(os.environ.get('VERIF_JOBS', '16'))

REPLAY_TEMPLATE = '''#!/venv/bin/python
# Standalone replay of a solver counterexample against the unmodified library.
# property={prop} harness={mod}.{fn} job={job}
import os, sys
os.environ['VERIF_CONCRETE'] = '1'
os.environ.setdefault('VERIF_KF_ACTIVE', {kf!r})
sys.path.insert(0, {here!r}); sys.path.insert(0, {repolib!r})
sys.setrecursionlimit(20000)
from harness import {mod} as m
args = {args}
verdict = m.{fn}(**args)
print('verdict:', verdict)
sys.exit(0 if verdict == 'ok' or verdict.startswith('known:') else 1)
'''


def concrete_call(mod, fn, args_src, kf_active, timeout=120):
    """Run harness `fn` concretely (no CrossHair, no stand-ins) in a fresh interpreter."""
    code = REPLAY_TEMPLATE.format(prop='', mod=mod, fn=fn, job='', kf=kf_active, here=HERE,
                                  repolib=hlib.REPO_LIB, args=args_src)
    env = dict(os.environ, VERIF_CONCRETE='1', VERIF_KF_ACTIVE=kf_active)
    try:
        p = subprocess.run([PY_CONCRETE, '-c', code], capture_output=True, text=True, timeout=timeout, env=env)
    except subprocess.TimeoutExpired:
        return None, 'timeout'
    out = p.stdout.strip().splitlines()
    verdict = None
    for line in out:
        if line.startswith('verdict: '):
            verdict = line[len('verdict: '):]
    return verdict, (p.stdout + p.stderr)[-2000:]


def args_literal(sample):
    """{'s': "'ab'", 'n': '3'} (reprs) -> source of a dict literal"""
    return '{' + ', '.join('%r: %s' % (k, v) for k, v in sample.items()) + '}'


def write_replay(prop, mod, fn, job, sample, kf_active):
    os.makedirs(os.path.join(HERE, 'replays'), exist_ok=True)
    src = REPLAY_TEMPLATE.format(prop=prop, mod=mod, fn=fn, job=job, kf=kf_active, here=HERE,
                                 repolib=hlib.REPO_LIB, args=args_literal(sample))
    h = hashlib.sha1(src.encode('utf-8', 'surrogatepass')).hexdigest()[:10]
    path = os.path.join(HERE, 'replays', '%s_%s_%s.py' % (prop, job.replace('/', '_').replace(' ', '_')[:40], h))
    with open(path, 'w', encoding='utf-8', errors='surrogatepass') as f:
        f.write(src)
    os.chmod(path, 0o755)
    return path


def determine_active_known(prop):
    """A known finding is active iff its witness still fails on the current tree."""
    active, lines = [], []
    for f in hlib.known_findings():
        if prop not in f['properties'] or f.get('status') != 'known':
            continue
        w = f['witness']
        verdict, out = concrete_call(w['module'], w['fn'], w['args'], '')
        if verdict is not None and verdict != 'ok' and not verdict.startswith('known:'):
            active.append(f['id'])
            lines.append('KNOWN-FINDING: property=%s %s [%s] witness=%s -> %s' % (
                prop, f['what'], f['id'], w['args'], verdict))
        else:
            lines.append('note: known finding %s no longer reproduces (witness verdict %r); not suppressed' % (f['id'], verdict))
    return active, lines


def run_jobs(mod_name, tier, jobs, kf_active, log):
    tmp = tempfile.mkdtemp(prefix='verif_')
    env = dict(os.environ, VERIF_KF_ACTIVE=kf_active, PYTHONHASHSEED='0')
    env.pop('VERIF_CONCRETE', None)
    pending = list(jobs)
    # longest first
    pending.sort(key=lambda j: -j.budget)
    running = {}
    results = {}
    scale = float(os.environ.get('VERIF_BUDGET_SCALE', '1'))
    while pending or running:
        while pending and len(running) < NPROC:
            j = pending.pop(0)
            out = os.path.join(tmp, 'r%d.json' % len(results) + str(len(running)) + '_' + str(time.time_ns()))
            p = subprocess.Popen([PY_SYM, '-m', 'symex.worker', mod_name, tier, j.id, out],
                                 cwd=HERE, env=dict(env, VERIF_JOB_BUDGET=str(j.budget)), stdout=subprocess.PIPE, stderr=subprocess.STDOUT)
            running[j.id] = (p, out, time.time(), j)
        time.sleep(0.2)
        for jid in list(running):
            p, out, t0, j = running[jid]
            rc = p.poll()
            hard = j.budget * scale * 1.5 + 90
            if rc is None and time.time() - t0 > hard:
                p.kill()
                rc = p.wait()
                results[jid] = {'job': jid, 'status': 'UNKNOWN', 'killed': True, 'paths': 0, 'confirmed': 0,
                                'solver_checks': 0, 'solver_s': 0, 'samples': [], 'counterexamples': [],
                                'wall_s': round(time.time() - t0, 1), 'fn': j.fn.__name__,
                                'exhaust_expected': j.exhaust, 'bounds': j.bounds, 'unknown_paths': 0,
                                'reached': 0, 'known_ids': {}}
                del running[jid]
                log('  cell %-34s KILLED after %.0fs (hard limit)' % (jid, time.time() - t0))
                continue
            if rc is None:
                continue
            del running[jid]
            try:
                r = json.load(open(out))
            except Exception:
                r = {'job': jid, 'status': 'ERROR', 'error': 'no result file; worker output: ' +
                     (p.stdout.read().decode('utf-8', 'replace')[-2000:] if p.stdout else '')}
            results[jid] = r
            log('  cell %-34s %-9s paths=%-5s confirmed=%-5s unknown=%-3s z3=%s/%.1fs wall=%.1fs' % (
                jid, r.get('status'), r.get('paths'), r.get('confirmed'), r.get('unknown_paths'),
                r.get('solver_checks'), r.get('solver_s') or 0, r.get('wall_s') or 0))
    try:
        for f in os.listdir(tmp):
            os.unlink(os.path.join(tmp, f))
        os.rmdir(tmp)
    except OSError:
        pass
    return results


def main():
    ap = argparse.ArgumentParser()
    ap.add_argument('prop')
    ap.add_argument('--tier', default=os.environ.get('VERIF_TIER', 'quick'))
    ap.add_argument('--replay')
    ap.add_argument('--only', help='comma-separated job ids (debugging)')
    a = ap.parse_args()
    prop = a.prop.upper()
    mod_name = prop.lower()
    if a.replay:
        rc = subprocess.call([PY_CONCRETE, a.replay])
        if rc != 0:
            print('VIOLATION property=%s replay=%s' % (prop, a.replay))
        sys.exit(1 if rc else 0)
    t0 = time.time()
    seed = int(os.environ.get('VERIF_SEED', '0'))

    def log(s):
        print(s, flush=True)

    log('== %s tier=%s repo=%s' % (prop, a.tier, hlib.REPO))
    mod = importlib.import_module('harness.' + mod_name)
    harness_error = []
    violations = []
    inconclusive = []
    # 1. known findings
    active, lines = determine_active_known(prop)
    for l in lines:
        log(l)
    kf_active = ','.join(active)
    os.environ['VERIF_KF_ACTIVE'] = kf_active
    # 2. model / oracle self-tests (concrete, differential)
    selftest_info = []
    if hasattr(mod, 'selftests'):
        try:
            selftest_info = mod.selftests() or []
            for s in selftest_info:
                log('  selftest: ' + s)
        except Exception as e:  # noqa
            import traceback
            traceback.print_exc()
            harness_error.append('selftest failed: %r' % (e,))
    # 3. direct SMT queries
    smt_results = []
    if hasattr(mod, 'smt_checks') and not harness_error:
        env = dict(os.environ)
        p = subprocess.run([PY_SYM, '-c',
                            'import sys,json; sys.path.insert(0,%r); sys.path.insert(0,%r);'
                            'from harness import %s as m; print("SMTJSON"+json.dumps(m.smt_checks(%r)))'
                            % (HERE, hlib.REPO_LIB, mod_name, a.tier)],
                           capture_output=True, text=True, env=env)
        got = [l for l in p.stdout.splitlines() if l.startswith('SMTJSON')]
        if not got:
            harness_error.append('smt_checks crashed: ' + (p.stdout + p.stderr)[-3000:])
        else:
            smt_results = json.loads(got[0][7:])
            for q in smt_results:
                log('  smt %-44s %-12s %.2fs %s' % (q['name'], q['status'], q.get('seconds', 0), q.get('witness', '') if q['status'] != 'held' else ''))
                if q['status'] == 'violated':
                    # replay through the concrete function named by the query
                    rp = q.get('replay')
                    if rp:
                        verdict, out = concrete_call(rp['module'], rp['fn'], rp['args'], kf_active)
                        if verdict is None:
                            harness_error.append('smt witness replay crashed: %s %s' % (q['name'], out))
                        elif verdict == 'ok':
                            harness_error.append('smt witness does not replay: %s %s' % (q['name'], rp['args']))
                        elif verdict.startswith('known:'):
                            q['status'] = 'known'
                            q['known_id'] = verdict[6:]
                        else:
                            # write replay script directly from args source
                            os.makedirs(os.path.join(HERE, 'replays'), exist_ok=True)
                            src = REPLAY_TEMPLATE.format(prop=prop, mod=rp['module'], fn=rp['fn'], job=q['name'], kf=kf_active,
                                                         here=HERE, repolib=hlib.REPO_LIB, args=rp['args'])
                            path = os.path.join(HERE, 'replays', '%s_smt_%s.py' % (prop, hashlib.sha1(src.encode('utf-8', 'surrogatepass')).hexdigest()[:10]))
                            open(path, 'w', encoding='utf-8', errors='surrogatepass').write(src)
                            violations.append((q['name'], verdict, path))
                    else:
                        harness_error.append('smt violation without replay: ' + q['name'])
                elif q['status'] != 'held':
                    inconclusive.append('smt:' + q['name'])
    # 4. symbolic exploration
    jobs = mod.jobs(a.tier) if hasattr(mod, 'jobs') else []
    if a.only:
        keep = set(a.only.split(','))
        jobs = [j for j in jobs if j.id in keep]
    # the thorough tier is sized by total wall time: if the budgets of all cells add up to more
    # than VERIF_THOROUGH_CAP_MIN minutes on this machine, the cells declared bug-hunting only
    # are scaled down first, then (if still too much) every cell; a cell that does not close its
    # path tree within its budget is reported inconclusive, never as held
    if a.tier == 'thorough' and jobs and 'VERIF_BUDGET_SCALE' not in os.environ:
        cap = float(os.environ.get('VERIF_THOROUGH_CAP_MIN', '25')) * 60 * NPROC
        total = sum(j.budget for j in jobs)
        if total > cap:
            exh = sum(j.budget for j in jobs if j.exhaust)
            rest = total - exh
            if exh <= 0.7 * cap and rest > 0:
                f_exh, f_rest = 1.0, max(0.02, (cap - exh) / rest)
            else:
                f_exh = f_rest = cap / total
            for j in jobs:
                j.budget = max(20.0, j.budget * (f_exh if j.exhaust else f_rest))
            log('  thorough tier: cell budgets scaled (exhaustive cells x%.2f, bug-hunting cells x%.2f; sum was %.0f s, cap %.0f s)' % (f_exh, f_rest, total, cap))
    results = run_jobs(mod_name, a.tier, jobs, kf_active, log) if not harness_error else {}
    replayed = 0
    for jid, r in sorted(results.items()):
        st = r.get('status')
        if st == 'ERROR':
            harness_error.append('worker error in %s: %s' % (jid, r.get('error', '')[-1500:]))
        elif st == 'VACUOUS':
            harness_error.append('cell %s is vacuous: no path reached the asserted region (%s paths, %s ignored)' % (jid, r.get('paths'), r.get('ignored')))
        elif st == 'REFUTED':
            for cx in r['counterexamples']:
                if cx['verdict'].startswith('HARNESS-'):
                    harness_error.append('harness bug in %s: %s args=%s' % (jid, cx['verdict'], cx['args']))
                    continue
                if cx['args'] is None:
                    harness_error.append('no arguments for counterexample in %s' % jid)
                    continue
                verdict, out = concrete_call(mod_name, r['fn'], args_literal(cx['args']), kf_active)
                replayed += 1
                if verdict is None:
                    harness_error.append('replay of %s crashed: %s' % (jid, out))
                elif verdict == 'ok' or verdict.startswith('known:'):
                    harness_error.append('counterexample of %s does not replay concretely (symbolic verdict %r, concrete %r, args %s): a model is wrong' % (jid, cx['verdict'], verdict, cx['args']))
                else:
                    path = write_replay(prop, mod_name, r['fn'], jid, cx['args'], kf_active)
                    violations.append((jid, verdict, path))
        elif st == 'UNKNOWN':
            inconclusive.append(jid)
            log('INCONCLUSIVE property=%s cell=%s paths_confirmed=%s%s' % (
                prop, jid, r.get('confirmed'), '' if r.get('exhaust_expected', True) else ' (declared bug-hunting only)'))
    # 4b. model validation: re-run sampled confirmed paths concretely (no CrossHair, no
    # stand-ins) and demand the same verdict: a disagreement means an engine-side model
    # does not describe the real builtin.
    sample_items = []
    for jid, r in sorted(results.items()):
        for smp in (r.get('samples') or [])[:3]:
            if smp.get('args') is not None:
                sample_items.append({'module': mod_name, 'fn': r['fn'], 'args': smp['args'], 'expect': smp['verdict'], 'cell': jid})
    validated = 0
    if sample_items and not harness_error:
        tmpd = tempfile.mkdtemp(prefix='verif_rb_')
        fin, fout = os.path.join(tmpd, 'in.json'), os.path.join(tmpd, 'out.json')
        json.dump(sample_items, open(fin, 'w'))
        env = dict(os.environ, VERIF_CONCRETE='1', VERIF_KF_ACTIVE=kf_active)
        try:
            subprocess.run([PY_CONCRETE, os.path.join(HERE, 'symex', 'replay_batch.py'), fin, fout], env=env, timeout=600,
                           capture_output=True)
            got = json.load(open(fout))
        except Exception as e:  # noqa
            got = None
            harness_error.append('sample replay batch failed: %r' % (e,))
        if got is not None:
            for it, v in zip(sample_items, got):
                okc = (v == 'ok' or v.startswith('known:'))
                oks = (it['expect'] == 'ok' or it['expect'].startswith('known:'))
                if okc == oks:
                    validated += 1
                else:
                    harness_error.append('sampled path of %s does not agree concretely: symbolic %r, concrete %r, args %s' % (
                        it['cell'], it['expect'], v, it['args']))
        for f in (fin, fout):
            try:
                os.unlink(f)
            except OSError:
                pass
        try:
            os.rmdir(tmpd)
        except OSError:
            pass
        log('  model validation: %d/%d sampled paths re-executed concretely with the same verdict' % (validated, len(sample_items)))
    # 5. evidence
    paths = sum(r.get('paths', 0) or 0 for r in results.values())
    confirmed_paths = sum(r.get('confirmed', 0) or 0 for r in results.values())
    checks = sum(r.get('solver_checks', 0) or 0 for r in results.values()) + sum(q.get('checks', 1) for q in smt_results)
    solver_s = sum(r.get('solver_s', 0) or 0 for r in results.values()) + sum(q.get('seconds', 0) for q in smt_results)
    samples = []
    for jid, r in sorted(results.items()):
        for s in r.get('samples', [])[:3]:
            samples.append({'cell': jid, 'args': s['args'], 'verdict': s['verdict']})
    for q in smt_results[:6]:
        samples.append({'smt_query': q['name'], 'status': q['status'], 'witness': q.get('witness')})
    known_hits = {}
    for r in results.values():
        for k, v in (r.get('known_ids') or {}).items():
            known_hits[k] = known_hits.get(k, 0) + v
    cells = {}
    for jid, r in sorted(results.items()):
        cells[jid] = {k: r.get(k) for k in ('status', 'fn', 'bounds', 'paths', 'confirmed', 'ignored', 'unknown_paths',
                                             'reached', 'exhausted', 'solver_checks', 'solver_s', 'wall_s',
                                             'exhaust_expected', 'unknown_reasons', 'killed')}
    all_conf = bool(results) and all(r.get('status') == 'CONFIRMED' for r in results.values()) and \
        all(q['status'] in ('held', 'known') for q in smt_results)
    ev = {
        'property_id': prop, 'tier': a.tier if a.tier in ('quick', 'thorough') else 'quick', 'seed': seed,
        'level': 'model_checking',
        'coverage': {
            'states': max(paths + len(smt_results), 0),
            'transitions': max(checks, 0),
            'traces_validated_against_impl': validated + len(active) + sum(q.get('validated', 0) for q in smt_results),
            'counterexamples_replayed': replayed,
            'samples': samples or [{'note': 'no cell produced a sample'}],
            'exhaustive': all_conf,
            'explanation': 'states = execution paths explored symbolically (each path = one class of inputs '
                           'decided by the solver) + direct SMT queries; transitions = z3 check() calls; '
                           'exhaustive = every cell CONFIRMED over all paths within its stated bound',
            'paths_confirmed': confirmed_paths,
            'solver_seconds': round(solver_s, 2),
            'functions_encoded': getattr(mod, 'ENCODED', []),
            'bounds': getattr(mod, 'BOUNDS', {}).get(a.tier, ''),
            'outside_claim': getattr(mod, 'OUTSIDE', ''),
            'cells': cells,
            'smt_queries': smt_results,
            'inconclusive_cells': inconclusive,
            'known_findings_active': active,
            'known_finding_paths': known_hits,
            'selftests': selftest_info,
            'harness_errors': harness_error,
        },
        'assumptions': getattr(mod, 'ASSUMPTIONS', []),
        'wall_s': round(time.time() - t0, 2),
        'violations': len(violations),
    }
    # evidence/ describes /repo itself; a run pointed at another tree (VERIF_REPO: seeded changes) writes next to that tree
    evdir = os.path.join(HERE, 'evidence') if os.path.realpath(hlib.REPO) == '/repo' else os.path.join(os.path.realpath(hlib.REPO) + '.evidence')
    os.makedirs(evdir, exist_ok=True)
    with open(os.path.join(evdir, prop + '.json'), 'w') as f:
        json.dump(ev, f, indent=1, ensure_ascii=True)
    log('== %s: cells=%d confirmed=%d inconclusive=%d smt=%d paths=%d z3_checks=%d solver=%.1fs wall=%.1fs' % (
        prop, len(results), sum(1 for r in results.values() if r.get('status') == 'CONFIRMED'),
        len(inconclusive), len(smt_results), paths, checks, solver_s, time.time() - t0))
    if violations:
        for jid, verdict, path in violations:
            log('  violated in %s: %s' % (jid, verdict))
            print('VIOLATION property=%s replay=%s' % (prop, path), flush=True)
        sys.exit(1)
    if harness_error:
        for h in harness_error[:6]:
            log('HARNESS-ERROR ' + h[:1500])
        if len(harness_error) > 6:
            log('HARNESS-ERROR ... and %d more (see evidence file)' % (len(harness_error) - 6))
        sys.exit(2)
    sys.exit(0)


if __name__ == '__main__':
    main()
