"""Engine-side models M1-M3 (DESIGN.md section 2.3).

They patch CrossHair's *view* of two builtins; /repo is not touched.

M1  "...%r..." % symbolic  inside yaml/{scanner,parser,composer,constructor,resolver,
    reader,error}.py  -> fixed placeholder (all such sites build exception messages;
    message text is not part of any property decided with M1 active).
M2  '<prefix>%0<w>X' % symbolic_int  -> digit string built arithmetically.
M3  int(symbolic_str[, base])        -> pymodels.py_int run under the tracer (exact model of
    CPython's parser incl. Unicode digits/spaces; differential self-test in pymodels).
M4e str.encode('ascii'|'utf-8'|'utf-16-le/be') on a symbolic str -> pymodels.encode_values
    (CrossHair's own codecs realise the whole string to build the exception object).
M3f float(symbolic_str)              -> validity decided exactly by pymodels.float_valid; the
    value is the exact rational value of the literal (pymodels.py_float), i.e. floats are
    treated as reals: rounding is outside every claim that uses this model.
"""
import os
import re
import sys

_installed = False
ERR_FILES = ('yaml/scanner.py', 'yaml/parser.py', 'yaml/composer.py', 'yaml/constructor.py',
             'yaml/resolver.py', 'yaml/reader.py', 'yaml/error.py')
PLACEHOLDER = '<msg>'
# files where '%' is also used for real output: only formatting that builds an exception
# message is replaced there (decided from the source line)
ERR_LINE_FILES = ('yaml/emitter.py', 'yaml/serializer.py', 'yaml/representer.py')


def _is_error_message_line(frame):
    import linecache
    fn = frame.f_code.co_filename
    line = linecache.getline(fn, frame.f_lineno)
    if 'Error(' in line:
        return True
    if line.strip().startswith('%'):
        return 'Error(' in linecache.getline(fn, frame.f_lineno - 1)
    return False


_opcode_installed = False


def floats_as_reals():
    """CrossHair models a symbolic float either as a z3 Real or as an IEEE-754 bit
    pattern, and forks on the choice in every path; the IEEE queries of this code base
    (decimal literal -> value) time out.  Harness modules that declare FLOATS_AS_REALS
    pin the representation to Real: floats are exact rationals, rounding is outside
    the claim (and is compared concretely on replay)."""
    from crosshair.libimpl import builtinslib as bl
    orig = bl.ModelingDirector.get

    def get(self, typ):
        if typ is float:
            self.global_representations[typ] = bl.RealBasedSymbolicFloat
            return bl.RealBasedSymbolicFloat
        return orig(self, typ)
    bl.ModelingDirector.get = get


def install_opcode_models(m1=True):
    """M1b: CPython >= 3.12 compiles  "...%r..." % (a, b)  with a literal format and a
    tuple display into FORMAT_VALUE/BUILD_STRING, so no str.__mod__ call exists to patch.
    In the error-message files the formatted operand is replaced by the placeholder."""
    global _opcode_installed
    if _opcode_installed or not m1:
        return
    _opcode_installed = True
    from crosshair import core
    from crosshair.tracers import TracingModule, frame_stack_read, frame_stack_write
    from crosshair.opcode_intercept import FORMAT_VALUE, CONVERT_VALUE, FormatStashingValue, frame_op_arg

    class ErrorMessageFormatValue(TracingModule):
        opcodes_wanted = frozenset([FORMAT_VALUE, CONVERT_VALUE])

        def trace_op(self, frame, codeobj, codenum):
            fn = frame.f_code.co_filename
            if not fn.endswith(ERR_FILES):
                if not (fn.endswith(ERR_LINE_FILES) and _is_error_message_line(frame)):
                    return
            flags = frame_op_arg(frame)
            idx = -2 if flags == 0x04 else -1
            obj = frame_stack_read(frame, idx)
            if isinstance(obj, FormatStashingValue):
                obj.value = PLACEHOLDER
            else:
                frame_stack_write(frame, idx, PLACEHOLDER)
    core._OPCODE_PATCHES.append(ErrorMessageFormatValue())


def overrides(m1=True):
    """{builtin: override} to be added as a *second* layer on CrossHair's patching module
    (engine.run_cell does that after entering Patched()); a call of the same builtin made
    from inside an override is routed by the tracer to the next lower layer (CrossHair's
    own model), so the fall-through paths below simply call the builtin again."""
    import z3
    from crosshair import core
    from crosshair.tracers import NoTracing
    from crosshair.core import deep_realize
    from crosshair.libimpl.builtinslib import SymbolicInt, LazyIntSymbolicStr
    from crosshair.libimpl.builtinslib import AnySymbolicStr as AnySymbolicStr_

    getframe = sys._getframe
    hexfmt = re.compile(r'^([^%]*)%0(\d)X$')

    def _fmt(self, other):
        with NoTracing():
            if m1 and type(self) is str:
                f = getframe(1)
                while f is not None and '/crosshair/' in f.f_code.co_filename:
                    f = f.f_back
                if f is not None and f.f_code.co_filename.endswith(ERR_FILES):
                    return PLACEHOLDER
                if f is not None and f.f_code.co_filename.endswith(ERR_LINE_FILES) and _is_error_message_line(f):
                    return PLACEHOLDER
            if type(self) is str and isinstance(other, AnySymbolicStr_) and self.count('%') == 1 and self.count('%s') == 1:
                # 'prefix%ssuffix' % symbolic_str  -> concatenation (keeps the operand symbolic)
                pre, post = self.split('%s')
                return pre + other + post
            if type(self) is str and isinstance(other, SymbolicInt):
                m = hexfmt.match(self.replace('%%', '\x00'))
                if m:
                    pre, width = m.group(1).replace('\x00', '%'), int(m.group(2))
                    n = other.var
                    cps = [ord(c) for c in pre]
                    for k in range(width - 1, -1, -1):
                        d = (n / (16 ** k)) % 16
                        cps.append(SymbolicInt(z3.If(d < 10, d + 48, d + 55)))
                    space = core.context_statespace()
                    inrange = z3.And(n >= 0, n < 16 ** width)
                    if space.smt_fork(inrange, probability_true=0.9):
                        return LazyIntSymbolicStr(cps)
        return str.__mod__(self, other)

    from crosshair.libimpl.builtinslib import AnySymbolicStr, SymbolicBool
    from crosshair.core import proxy_for_type
    from crosshair.tracers import ResumedTracing
    from . import pymodels

    def _sym_decimal(cp):
        with NoTracing():
            if not isinstance(cp, SymbolicInt):
                return pymodels._ND_SET.get(int(cp), -1)
            v = cp.var
            space = core.context_statespace()
            isnd = z3.Or(*[z3.And(v >= st, v <= st + 9) for st in pymodels._ND_STARTS])
            if not space.smt_fork(isnd, probability_true=0.3):
                return -1
            val = z3.IntVal(0)
            for st in pymodels._ND_STARTS:
                val = z3.If(z3.And(v >= st, v <= st + 9), v - st, val)
            return SymbolicInt(val)

    def _sym_space(cp):
        with NoTracing():
            if not isinstance(cp, SymbolicInt):
                return int(cp) in pymodels._SPACE_HI_SET
            v = cp.var
            space = core.context_statespace()
            return space.smt_fork(z3.Or(*[v == c for c in pymodels._SPACE_HI]), probability_true=0.3)
    pymodels._symbolic_hooks['uni_decimal'] = _sym_decimal
    pymodels._symbolic_hooks['uni_space'] = _sym_space

    def _int(val=0, *a, **kw):
        base = a[0] if a else kw.get('base', 10)
        with NoTracing():
            sym = isinstance(val, AnySymbolicStr) and type(base) is int and base in (2, 8, 10, 16)
        if sym:
            return pymodels.py_int(val, base)
        return int(val, *a, **kw)

    def _float(val=0.0):
        with NoTracing():
            sym = isinstance(val, AnySymbolicStr)
        if sym:
            if not pymodels.float_valid(val):
                raise ValueError('could not convert string to float')
            return pymodels.py_float(val)
        return float(val)
    import codecs
    from crosshair.libimpl.builtinslib import SymbolicBytes

    # M9: str.lower() on a symbolic str.  ASCII exact; U+0130 and U+212A (the only
    # non-ASCII characters whose lower() contains an ASCII character) exact; a Unicode
    # decimal digit or space lowers to itself; any other non-ASCII character lowers to
    # *some* non-ASCII character that is neither a digit nor a space (over-approximation
    # of the case table: the library only compares lowered text with ASCII words and
    # feeds it to int()/float()).  Checked against str.lower() in selftest_lower().
    def _fresh_lower(cp):
        with NoTracing():
            space = core.context_statespace()
            v = cp.var if isinstance(cp, SymbolicInt) else z3.IntVal(int(cp))
            keep = z3.Or(*([z3.And(v >= st, v <= st + 9) for st in pymodels._ND_STARTS] +
                          [v == c for c in pymodels._SPACE_HI]))
            if space.smt_fork(keep, probability_true=0.3):
                return cp
            f = z3.Int('lower' + space.uniq())
            space.add(z3.And(f >= 128, f <= 0x10FFFF,
                             z3.Not(z3.Or(*([z3.And(f >= st, f <= st + 9) for st in pymodels._ND_STARTS] +
                                            [f == c for c in pymodels._SPACE_HI])))))
            return SymbolicInt(f)

    def _lower(self):
        out = []
        for ch in self:
            cp = ord(ch)
            if cp < 128:
                out.append(cp + 32 if 65 <= cp <= 90 else cp)
            elif cp == 0x130:
                out.append(0x69)
                out.append(0x307)
            elif cp == 0x212A:
                out.append(0x6B)
            else:
                out.append(_fresh_lower(cp))
        with NoTracing():
            return LazyIntSymbolicStr(out)
    AnySymbolicStr.lower = _lower
    LazyIntSymbolicStr.lower = _lower

    def _encode(obj, encoding='utf-8', errors='strict'):
        with NoTracing():
            sym = (isinstance(obj, AnySymbolicStr) and type(encoding) is str and errors == 'strict'
                   and encoding.lower().replace('_', '-') in ('ascii', 'utf-8', 'utf8', 'utf-16-le', 'utf-16-be'))
        if sym:
            vals = pymodels.encode_values(obj, encoding)
            with NoTracing():
                return SymbolicBytes(vals)
        return codecs.encode(obj, encoding, errors)
    # M11: CrossHair 0.0.110's symbolic re.Match.groupdict() returns (start, end) spans
    # instead of substrings and drops unmatched groups; corrected here (engine defect).
    from crosshair.libimpl import relib

    def _groupdict(self, default=None):
        ret = {}
        for name, idx in self.re.groupindex.items():
            g = self._groups[idx]
            ret[name] = default if g is None else self.string[g[0]:g[1]]
        return ret
    for _cls in vars(relib).values():
        if isinstance(_cls, type) and 'groupdict' in vars(_cls):
            _cls.groupdict = _groupdict

    # M13: CrossHair 0.0.110's regex engine treats '$' (without re.MULTILINE) as "end of string" only; in Python it also
    # matches just before a line feed that ends the string.  The matcher is recompiled from its own source with that case
    # added (engine defect; selftest_dollar compares the corrected engine with re on the resolver patterns).
    import inspect
    import textwrap
    _src = inspect.getsource(relib._internal_match_patterns)
    _old = """            if arg is AT_END and re.MULTILINE & flags:
                with ResumedTracing():
                    next_char = ord(string[offset])
                return fork_on(
                    SymbolicInt._coerce_to_smt_sort(next_char) == ord("\\n"), 0
                )
            return None
"""
    _new = """            if arg is AT_END and re.MULTILINE & flags:
                with ResumedTracing():
                    next_char = ord(string[offset])
                return fork_on(
                    SymbolicInt._coerce_to_smt_sort(next_char) == ord("\\n"), 0
                )
            if arg is AT_END:
                if space.smt_fork(SymbolicInt._coerce_to_smt_sort(matchable_len) == 1):
                    with ResumedTracing():
                        next_char = ord(string[offset])
                    return fork_on(
                        SymbolicInt._coerce_to_smt_sort(next_char) == ord("\\n"), 0
                    )
            return None
"""
    if not getattr(relib, '_verif_dollar_fixed', False) and not os.environ.get('VERIF_NO_M13'):
        if _old not in _src:
            raise RuntimeError('M13: the source of crosshair.libimpl.relib._internal_match_patterns is not the one this model was written for')
        exec(compile(_src.replace(_old, _new), relib.__file__, 'exec'), vars(relib))
        relib._verif_dollar_fixed = True

    # M7: hasattr/getattr(obj, symbolic_name) on the harness's stand-in modules (objects
    # that list their attribute names in __verif_names__): symbolic comparison with each
    # name instead of realising the name inside the C builtin.
    _MISSING = object()

    def _names_of(obj):
        with NoTracing():
            try:
                return object.__getattribute__(obj, '__verif_names__')
            except Exception:
                return None

    def _hasattr(obj, name):
        names = _names_of(obj)
        if names is None:
            return hasattr(obj, name)
        for n in names:
            if name == n:
                return True
        return False

    def _getattr(obj, name, default=_MISSING):
        names = _names_of(obj)
        if names is None:
            if default is _MISSING:
                return getattr(obj, name)
            return getattr(obj, name, default)
        for n in names:
            if name == n:
                return object.__getattribute__(obj, n)
        if default is _MISSING:
            raise AttributeError(PLACEHOLDER)
        return default
    return {str.__mod__: _fmt, int: _int, float: _float, codecs.encode: _encode,
            hasattr: _hasattr, getattr: _getattr}


def rnd64_expr(r, decide):
    """z3 Real expression r -> z3 Real expression for the nearest binary64 value (ties to even).
    `decide(bool expr) -> bool` picks the branch: a forking decision of the path explorer, or plain
    evaluation when r is a constant (self-test)."""
    import z3
    from fractions import Fraction
    HALF = z3.RealVal('1/2')
    if decide(r == 0):
        return r
    neg = decide(r < 0)
    a = -r if neg else r
    if decide(a >= z3.RealVal(2 ** 1024)):
        return r
    lo, hi = -1075, 1024          # 2**lo <= a < 2**hi  (below 2**-1074: rounds within the subnormal grid)
    while hi - lo > 1:
        mid = (lo + hi) // 2
        if decide(a >= z3.RealVal(Fraction(2) ** mid)):
            lo = mid
        else:
            hi = mid
    e = lo
    t = 1074 if e < -1022 else 52 - e
    scale = z3.RealVal(Fraction(2) ** t)
    scaled = a * scale
    fl = z3.ToInt(scaled)
    frac = scaled - z3.ToReal(fl)
    m = z3.If(frac > HALF, fl + 1, z3.If(frac < HALF, fl, z3.If(fl % 2 == 0, fl, fl + 1)))
    res = z3.ToReal(m) / scale
    return -res if neg else res


def selftest_rnd64(n=800):
    """the rounding formula of M12, run on constants, against the interpreter's own binary64 arithmetic"""
    import random
    import z3
    from fractions import Fraction
    rng = random.Random(64)
    decide = lambda e: z3.is_true(z3.simplify(e))

    def rnd(fr):
        v = z3.simplify(rnd64_expr(z3.RealVal(fr), decide))
        return Fraction(v.numerator_as_long(), v.denominator_as_long())
    checked = 0
    for i in range(n):
        k = rng.randint(1, 9)
        digits = rng.randint(0, 10 ** k - 1)
        lit = '0.%0*d' % (k, digits)
        x = float(lit)
        assert rnd(Fraction(digits, 10 ** k)) == Fraction(x), ('parse', lit)
        y = rng.choice([1000000.0, 1e3, 60.0, 0.1, 3.0, rng.random() * 10 ** rng.randint(-5, 5)])
        assert rnd(Fraction(x) * Fraction(y)) == Fraction(x * y), ('mul', x, y)
        assert rnd(Fraction(x) + Fraction(y)) == Fraction(x + y), ('add', x, y)
        p, q = rng.randint(-10 ** 12, 10 ** 12), rng.randint(1, 10 ** 9)
        assert rnd(Fraction(p, q)) == Fraction(p / q), ('div', p, q)
        checked += 4
    for fr, want in [(Fraction(1, 2 ** 1075), 0.0), (Fraction(3, 2 ** 1075), 2 ** -1073), (Fraction(2 ** 53 + 1), 2.0 ** 53), (Fraction(2 ** 53 + 3), 2.0 ** 53 + 4),
                     (Fraction(5, 2 ** 1074), 5e-324 * 5)]:
        assert rnd(fr) == Fraction(want), fr
        checked += 1
    return 'M12 rounding formula agrees with binary64 parse / + / * / int-by-int division on %d cases (ties and subnormals included)' % checked


def ieee_rounding():
    """M12: binary64 rounding on top of the Real representation of floats.

    With floats pinned to z3 Reals (floats_as_reals) arithmetic is exact, so code that routes an
    exact decimal computation through binary floating point looks correct.  For jobs that ask for
    it (Job(..., ieee=True)) every result of +, -, *, / that is a symbolic float - which includes
    int / int, the last step of the float(str) model M3f - is rounded to the nearest binary64
    value, ties to even: the path forks on the binade of the exact result (binary search over the
    exponent, one solver decision each), then  m = round_half_even(|r| * 2**t),  result = m / 2**t
    with t = 52 - e (t = 1074 in the subnormal range) is linear integer / real arithmetic.
    Results beyond the largest finite double are left unrounded (outside every claim).
    Self-test: selftest_rnd64 (the same function on constants against the interpreter's arithmetic)."""
    import operator as ops
    import z3
    from fractions import Fraction
    from crosshair.libimpl import builtinslib as bl
    orig = bl.numeric_binop_internal
    ROUNDED = (ops.add, ops.sub, ops.mul, ops.truediv)
    HALF = z3.RealVal('1/2')

    def decide(expr):
        return bl.SymbolicBool(expr).__bool__()

    def rnd(r):
        return rnd64_expr(r, decide)

    def wrapped(op, a, b):
        ret = orig(op, a, b)
        if op in ROUNDED and type(ret) is bl.RealBasedSymbolicFloat:
            return bl.RealBasedSymbolicFloat(rnd(ret.var))
        return ret
    bl.numeric_binop_internal = wrapped
