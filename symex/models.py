"""Engine-side models M1-M3 (DESIGN.md section 2.3).

They patch CrossHair's *view* of two builtins; /repo is not touched.

M1  "...%r..." % symbolic  inside yaml/{scanner,parser,composer,constructor,resolver,
    reader,error}.py  -> fixed placeholder (all such sites build exception messages;
    message text is not part of any property decided with M1 active).
M2  '<prefix>%0<w>X' % symbolic_int  -> digit string built arithmetically.
M3  int(symbolic_str, 16)            -> digit-wise arithmetic, one fork on validity.
"""
import re
import sys

_installed = False
ERR_FILES = ('yaml/scanner.py', 'yaml/parser.py', 'yaml/composer.py', 'yaml/constructor.py',
             'yaml/resolver.py', 'yaml/reader.py', 'yaml/error.py')
PLACEHOLDER = '<msg>'


def install(m1=True):
    global _installed
    if _installed:
        return
    _installed = True
    import z3
    from crosshair import core
    from crosshair.tracers import NoTracing
    from crosshair.core import deep_realize
    from crosshair.libimpl.builtinslib import SymbolicInt, LazyIntSymbolicStr

    getframe = sys._getframe
    hexfmt = re.compile(r'^([^%]*)%0(\d)X$')

    def _fmt(self, other):
        with NoTracing():
            if m1 and type(self) is str:
                f = getframe(1)
                while f is not None and '/crosshair/' in f.f_code.co_filename:
                    f = f.f_back
                if f is not None and f.f_code.co_filename.endswith(ERR_FILES):
                    return PLACEHOLDER
            if type(self) is str and isinstance(other, SymbolicInt):
                m = hexfmt.match(self.replace('%%', '\x00'))
                if m:
                    pre, width = m.group(1).replace('\x00', '%'), int(m.group(2))
                    n = other.var
                    cps = [ord(c) for c in pre]
                    for k in range(width - 1, -1, -1):
                        d = (n / (16 ** k)) % 16
                        cps.append(SymbolicInt(z3.If(d < 10, d + 48, d + 55)))
                    space = core.context_statespace()
                    inrange = z3.And(n >= 0, n < 16 ** width)
                    if space.smt_fork(inrange, probability_true=0.9):
                        return LazyIntSymbolicStr(cps)
        other = deep_realize(other)
        with NoTracing():
            return str.__mod__(self, other)
    core._PATCH_REGISTRATIONS[str.__mod__] = _fmt

    orig_int = core._PATCH_REGISTRATIONS[int]

    def _int(val=0, *a, **kw):
        base = a[0] if a else kw.get('base', None)
        with NoTracing():
            sym = (isinstance(val, LazyIntSymbolicStr) and type(base) is int and base == 16
                   and isinstance(val._codepoints, (list, tuple)))
            if sym:
                cps = list(val._codepoints)
                space = core.context_statespace()
                total = z3.IntVal(0)
                valid = []
                for cp in cps:
                    e = cp.var if isinstance(cp, SymbolicInt) else z3.IntVal(cp)
                    valid.append(z3.Or(z3.And(e >= 48, e <= 57), z3.And(e >= 65, e <= 70),
                                       z3.And(e >= 97, e <= 102)))
                    dv = z3.If(e <= 57, e - 48, z3.If(e <= 70, e - 55, e - 87))
                    total = total * 16 + dv
                if cps and space.smt_fork(z3.And(*valid), probability_true=0.9):
                    return SymbolicInt(total)
        return orig_int(val, *a, **kw)
    core._PATCH_REGISTRATIONS[int] = _int
