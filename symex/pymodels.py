"""Pure-Python reference models of C builtins that CrossHair can only realise.

Each model is ordinary Python over code points / byte values (comparisons and
arithmetic only), so that it can run under the tracer on symbolic data, and each is
differentially tested against the real builtin by `selftest_*` (called from the
harness modules' selftests(), i.e. on every run of a check).

  py_int(s, base)          int(str, base) for base in {2, 8, 10, 16}
  py_float(s)              float(str): validity exactly; value by float() when concrete
  b64_decodebytes(b)       base64.decodebytes (binascii.a2b_base64, non-strict)
  b64_encodebytes(b)       base64.encodebytes
"""
import unicodedata

# ------------------------------------------------------------------ unicode tables
_ND_STARTS = []
_cp = 0
while _cp < 0x110000:
    if _cp > 127 and unicodedata.decimal(chr(_cp), None) == 0:
        assert all(unicodedata.decimal(chr(_cp + k), None) == k for k in range(10))
        _ND_STARTS.append(_cp)
        _cp += 10
    else:
        _cp += 1
_ND_SET = {s + k: k for s in _ND_STARTS for k in range(10)}
_SPACE_HI = [cp for cp in range(128, 0x110000) if chr(cp).isspace()]
_SPACE_HI_SET = set(_SPACE_HI)

_symbolic_hooks = {}


def _is_concrete_int(x):
    return type(x) is int


def uni_decimal(cp):
    """decimal value of a non-ASCII code point, or -1"""
    h = _symbolic_hooks.get('uni_decimal')
    if h is None:
        return _ND_SET.get(cp, -1)
    return h(cp)


def uni_space(cp):
    h = _symbolic_hooks.get('uni_space')
    if h is None:
        return cp in _SPACE_HI_SET
    return h(cp)


def _to_ascii(s):
    """CPython's _PyUnicode_TransformDecimalAndSpaceToASCII: list of ASCII code points,
    or None at the first non-ASCII character that is neither a space nor a decimal digit."""
    out = []
    for ch in s:
        cp = ord(ch)
        if cp < 128:
            out.append(cp)
        elif uni_space(cp):
            out.append(32)
        else:
            d = uni_decimal(cp)
            if d < 0:
                return None
            out.append(48 + d)
    return out


def _isspace(c):
    return c == 32 or 9 <= c <= 13


def _digit(c):
    """value of an ASCII alphanumeric as a digit (0..35) or 99"""
    if 48 <= c <= 57:
        return c - 48
    if 97 <= c <= 122:
        return c - 87
    if 65 <= c <= 90:
        return c - 55
    return 99


class _Invalid(Exception):
    pass


def py_int(s, base=10):
    a = _to_ascii(s)
    if a is None:
        raise ValueError('invalid literal for int()')
    n = len(a)
    i = 0
    while i < n and _isspace(a[i]):
        i += 1
    j = n
    while j > i and _isspace(a[j - 1]):
        j -= 1
    sign = 1
    if i < j and (a[i] == 43 or a[i] == 45):
        if a[i] == 45:
            sign = -1
        i += 1
    if i + 1 < j and a[i] == 48:
        p = a[i + 1]
        if (base == 16 and (p == 120 or p == 88)) or (base == 8 and (p == 111 or p == 79)) or \
                (base == 2 and (p == 98 or p == 66)):
            i += 2
            if i < j and a[i] == 95:
                i += 1
    if i >= j:
        raise ValueError('invalid literal for int()')
    total = 0
    prev_us = True   # an underscore is not allowed first
    k = i
    while k < j:
        c = a[k]
        if c == 95:
            if prev_us:
                raise ValueError('invalid literal for int()')
            prev_us = True
        else:
            d = _digit(c)
            if d >= base:
                raise ValueError('invalid literal for int()')
            total = total * base + d
            prev_us = False
        k += 1
    if prev_us:
        raise ValueError('invalid literal for int()')
    return sign * total


def _lower(c):
    return c + 32 if 65 <= c <= 90 else c


def _match_word(a, i, j, word):
    if j - i < len(word):
        return False
    for k in range(len(word)):
        if _lower(a[i + k]) != ord(word[k]):
            return False
    return True


def float_valid(s):
    """True iff float(s) succeeds (s: str).  Mirrors float_from_string +
    _Py_string_to_number_with_underscores + PyOS_string_to_double."""
    a = _to_ascii(s)
    if a is None:
        return False
    n = len(a)
    i = 0
    while i < n and _isspace(a[i]):
        i += 1
    j = n
    while j > i and _isspace(a[j - 1]):
        j -= 1
    # underscores: only between two digits
    b = []
    k = i
    while k < j:
        c = a[k]
        if c == 95:
            if k == i or k + 1 >= j:
                return False
            if not (48 <= a[k - 1] <= 57 and 48 <= a[k + 1] <= 57):
                return False
        else:
            b.append(c)
        k += 1
    m = len(b)
    p = 0
    if p < m and (b[p] == 43 or b[p] == 45):
        p += 1
    # inf / infinity / nan
    if _match_word(b, p, m, 'infinity'):
        return p + 8 == m
    if _match_word(b, p, m, 'inf'):
        return p + 3 == m
    if _match_word(b, p, m, 'nan'):
        return p + 3 == m
    nd = 0
    while p < m and 48 <= b[p] <= 57:
        p += 1
        nd += 1
    if p < m and b[p] == 46:
        p += 1
        while p < m and 48 <= b[p] <= 57:
            p += 1
            nd += 1
    if nd == 0:
        return False
    if p < m and (b[p] == 101 or b[p] == 69):
        p += 1
        if p < m and (b[p] == 43 or b[p] == 45):
            p += 1
        ne = 0
        while p < m and 48 <= b[p] <= 57:
            p += 1
            ne += 1
        if ne == 0:
            return False
    return p == m


def _p10(n):
    """10**n for a small non-negative (possibly symbolic) n, by an explicit chain"""
    for i in range(0, 40):
        if n == i:
            return 10 ** i
    return 10 ** n


def py_float(s):
    """float(s) for a valid literal: the exact rational value of the decimal literal,
    computed as (mantissa * 10**a) / 10**b (correctly rounded by int/int true division
    when concrete; a z3 Real when symbolic - rounding is outside every claim that uses
    this model).  Caller has checked float_valid(s)."""
    a = _to_ascii(s)
    n = len(a)
    i = 0
    while i < n and _isspace(a[i]):
        i += 1
    j = n
    while j > i and _isspace(a[j - 1]):
        j -= 1
    b = [c for c in a[i:j] if c != 95]
    m = len(b)
    p = 0
    neg = False
    if p < m and (b[p] == 43 or b[p] == 45):
        neg = b[p] == 45
        p += 1
    if _match_word(b, p, m, 'inf'):
        return float('-inf') if neg else float('inf')
    if _match_word(b, p, m, 'nan'):
        return float('nan')
    M = 0
    k = 0
    while p < m and 48 <= b[p] <= 57:
        M = M * 10 + (b[p] - 48)
        p += 1
    if p < m and b[p] == 46:
        p += 1
        while p < m and 48 <= b[p] <= 57:
            M = M * 10 + (b[p] - 48)
            k += 1
            p += 1
    E = 0
    if p < m and (b[p] == 101 or b[p] == 69):
        p += 1
        eneg = False
        if p < m and (b[p] == 43 or b[p] == 45):
            eneg = b[p] == 45
            p += 1
        while p < m and 48 <= b[p] <= 57:
            E = E * 10 + (b[p] - 48)
            p += 1
        if eneg:
            E = -E
    sh = E - k
    if sh >= 0:
        v = (M * _p10(sh)) / 1
    else:
        v = M / _p10(-sh)
    return -v if neg else v


# ------------------------------------------------------------------ base64
_B64 = 'ABCDEFGHIJKLMNOPQRSTUVWXYZabcdefghijklmnopqrstuvwxyz0123456789+/'


def _b64val(c):
    if 65 <= c <= 90:
        return c - 65
    if 97 <= c <= 122:
        return c - 71
    if 48 <= c <= 57:
        return c + 4
    if c == 43:
        return 62
    if c == 47:
        return 63
    return -1


class B64Error(ValueError):
    pass


def b64_decode_values(data, error=B64Error):
    """binascii.a2b_base64(data) (non-strict): list of byte values; data: iterable of ints."""
    out = []
    quad_pos = 0
    leftchar = 0
    pads = 0
    for c in data:
        if c == 61:   # '='
            if quad_pos >= 2:
                pads += 1
                if pads >= 4 - quad_pos:
                    quad_pos = 0
                    break
            continue
        v = _b64val(c)
        if v < 0:
            continue
        pads = 0
        if quad_pos == 0:
            quad_pos = 1
            leftchar = v
        elif quad_pos == 1:
            quad_pos = 2
            out.append((leftchar * 4 + v // 16) % 256)
            leftchar = v % 16
        elif quad_pos == 2:
            quad_pos = 3
            out.append((leftchar * 16 + v // 4) % 256)
            leftchar = v % 4
        else:
            quad_pos = 0
            out.append((leftchar * 64 + v) % 256)
            leftchar = 0
    if quad_pos != 0:
        if quad_pos == 1:
            raise error('Invalid base64-encoded string: number of data characters cannot be 1 more than a multiple of 4')
        raise error('Incorrect padding')
    return out


def b64_encode_values(data):
    """base64.encodebytes(data): list of ASCII code points (76-column lines, trailing LF)."""
    vals = list(data)
    out = []
    n = len(vals)
    pos = 0
    while pos < n:
        chunk = vals[pos:pos + 57]
        k = 0
        m = len(chunk)
        while k < m:
            b0 = chunk[k]
            b1 = chunk[k + 1] if k + 1 < m else 0
            b2 = chunk[k + 2] if k + 2 < m else 0
            idx = [b0 // 4, (b0 % 4) * 16 + b1 // 16, (b1 % 16) * 4 + b2 // 64, b2 % 64]
            rem = m - k
            for q in range(4):
                if (q == 2 and rem < 2) or (q == 3 and rem < 3):
                    out.append(61)
                else:
                    out.append(_b64chr(idx[q]))
            k += 3
        out.append(10)
        pos += 57
    return out


def _b64chr(v):
    if v < 26:
        return 65 + v
    if v < 52:
        return 71 + v
    if v < 62:
        return v - 4
    if v == 62:
        return 43
    return 47


# ------------------------------------------------------------------ self tests
def selftest_int_float():
    import itertools
    alpha = ['0', '1', '7', '9', 'a', 'F', 'x', 'X', 'b', 'o', '_', '+', '-', ' ', '\t', '\x1c', '٣',
             ' ', 'g', '.', 'e', 'E', 'n', 'i', '\x85', '１', 'z', ':']
    n = 0
    for L in range(0, 4):
        for tup in itertools.product(alpha, repeat=L):
            s = ''.join(tup)
            for base in (2, 8, 10, 16):
                try:
                    want = int(s, base)
                except ValueError:
                    want = 'VE'
                try:
                    got = py_int(s, base)
                except ValueError:
                    got = 'VE'
                if want != got:
                    raise AssertionError('py_int(%r, %d) = %r, int() = %r' % (s, base, got, want))
            try:
                float(s)
                want = True
            except ValueError:
                want = False
            if float_valid(s) != want:
                raise AssertionError('float_valid(%r) = %r' % (s, not want))
            n += 1
    words = ['inf', 'Infinity', 'nan', '-inf', '+NaN', 'infinit', 'infinityx', '1e5', '1e', '1e+', '1e+5', '.e1', '1.e1',
             '1_0.0_1e1_0', '1_.0', '1._0', '1e_5', '_1', '1_', '  1.5  ', '1 .5', '0x10', '1__0', '١٢٣', '1 ',
             ' 1e5\x85', 'in', 'na', '+', '-', '.', '..', '1.2.3', 'e5', '1e5e5', '0_0', '1_000_000', '1e1_0', 'i_nf']
    import random
    rnd = random.Random(5)
    for _ in range(20000):
        lit = ''.join(rnd.choice('0123456789') for _ in range(rnd.randrange(1, 8)))
        if rnd.random() < 0.7:
            lit += '.' + ''.join(rnd.choice('0123456789') for _ in range(rnd.randrange(0, 8)))
        if rnd.random() < 0.5:
            lit += rnd.choice('eE') + rnd.choice(['', '+', '-']) + str(rnd.randrange(0, 30))
        lit = rnd.choice(['', '-', '+']) + lit
        if py_float(lit) != float(lit):
            raise AssertionError('py_float(%r) = %r, float() = %r' % (lit, py_float(lit), float(lit)))
    for lit in ('inf', '-Infinity', '+INF'):
        assert py_float(lit) == float(lit)
    assert py_float('nan') != py_float('nan')
    for s in words:
        try:
            float(s)
            want = True
        except ValueError:
            want = False
        if float_valid(s) != want:
            raise AssertionError('float_valid(%r) = %r' % (s, not want))
        for base in (2, 8, 10, 16):
            try:
                want = int(s, base)
            except ValueError:
                want = 'VE'
            try:
                got = py_int(s, base)
            except ValueError:
                got = 'VE'
            if want != got:
                raise AssertionError('py_int(%r, %d) = %r, int() = %r' % (s, base, got, want))
    # every single code point alone, before and after a digit
    for cp in range(0x110000):
        if 0xD800 <= cp <= 0xDFFF:
            continue
        ch = chr(cp)
        for s in (ch, ch + '1', '1' + ch):
            try:
                want = int(s)
            except ValueError:
                want = 'VE'
            try:
                got = py_int(s, 10)
            except ValueError:
                got = 'VE'
            if want != got:
                raise AssertionError('py_int(%r) = %r, int() = %r' % (s, got, want))
        n += 1
    return 'py_int/float_valid agree with int()/float() on %d strings (4 bases)' % n


def selftest_b64():
    import base64
    import binascii
    import itertools
    import random
    alpha = [65, 97, 48, 43, 47, 61, 10, 32, 0, 255, 122, 57, 45]
    n = 0
    for L in range(0, 6):
        for tup in itertools.product(alpha, repeat=L):
            b = bytes(tup)
            try:
                want = list(base64.decodebytes(b))
            except binascii.Error:
                want = 'ERR'
            try:
                got = b64_decode_values(b)
            except B64Error:
                got = 'ERR'
            if want != got:
                raise AssertionError('b64_decode(%r) = %r, real %r' % (b, got, want))
            n += 1
    rnd = random.Random(7)
    for _ in range(3000):
        b = bytes(rnd.randrange(256) for _ in range(rnd.randrange(0, 130)))
        enc = base64.encodebytes(b)
        if list(enc) != b64_encode_values(b):
            raise AssertionError('b64_encode(%r)' % (b,))
        if b64_decode_values(enc) != list(b):
            raise AssertionError('b64 roundtrip %r' % (b,))
        junk = bytes(rnd.choice(alpha + [66, 67, 68]) for _ in range(rnd.randrange(0, 12)))
        try:
            want = list(base64.decodebytes(junk))
        except binascii.Error:
            want = 'ERR'
        try:
            got = b64_decode_values(junk)
        except B64Error:
            got = 'ERR'
        if want != got:
            raise AssertionError('b64_decode(%r) = %r, real %r' % (junk, got, want))
        n += 2
    return 'base64 models agree with base64.decodebytes/encodebytes on %d byte strings' % n


# ------------------------------------------------------------------ codecs (M4)
def _dec_err(enc, start, end, reason):
    # the object attribute is a dummy of the right length: yaml.reader reads
    # exc.start / exc.encoding / exc.reason and indexes its own raw_buffer.
    return UnicodeDecodeError(enc, b'\x00' * end, start, end, reason)


def _mkstr(cps):
    return ''.join([chr(c) for c in cps])


def utf_8_decode(data, errors='strict', final=False):
    out = []
    i = 0
    n = len(data)
    while i < n:
        b0 = data[i]
        if b0 < 0x80:
            out.append(b0)
            i += 1
            continue
        if b0 < 0xC2 or b0 > 0xF4:
            raise _dec_err('utf-8', i, i + 1, 'invalid start byte')
        if b0 <= 0xDF:
            need, lo, hi, cp = 1, 0x80, 0xBF, b0 - 0xC0
        elif b0 == 0xE0:
            need, lo, hi, cp = 2, 0xA0, 0xBF, 0
        elif b0 == 0xED:
            need, lo, hi, cp = 2, 0x80, 0x9F, 0xD
        elif b0 <= 0xEF:
            need, lo, hi, cp = 2, 0x80, 0xBF, b0 - 0xE0
        elif b0 == 0xF0:
            need, lo, hi, cp = 3, 0x90, 0xBF, 0
        elif b0 == 0xF4:
            need, lo, hi, cp = 3, 0x80, 0x8F, 4
        else:
            need, lo, hi, cp = 3, 0x80, 0xBF, b0 - 0xF0
        j = 1
        incomplete = False
        while j <= need:
            if i + j >= n:
                incomplete = True
                break
            b = data[i + j]
            if j == 1:
                bad = b < lo or b > hi
            else:
                bad = b < 0x80 or b > 0xBF
            if bad:
                if (not final) and b0 == 0xED and j == 1 and n - i == 2 and 0xA0 <= b <= 0xBF:
                    # CPython: a truncated surrogate (ED A0..BF at the very end) counts as
                    # incomplete input for an incremental decoder
                    incomplete = True
                    break
                raise _dec_err('utf-8', i, i + j, 'invalid continuation byte')
            cp = cp * 64 + (b - 0x80)
            j += 1
        if incomplete:
            if final:
                raise _dec_err('utf-8', i, n, 'unexpected end of data')
            break
        out.append(cp)
        i += need + 1
    return _mkstr(out), i


def _utf_16_decode(data, final, le, enc):
    out = []
    i = 0
    n = len(data)
    while i + 1 < n:
        u = data[i] + data[i + 1] * 256 if le else data[i] * 256 + data[i + 1]
        if u < 0xD800 or u > 0xDFFF:
            out.append(u)
            i += 2
            continue
        if u >= 0xDC00:
            raise _dec_err(enc, i, i + 2, 'illegal encoding')
        if i + 3 >= n:
            # a high surrogate whose partner is not there yet
            if final:
                raise _dec_err(enc, i, n, 'unexpected end of data')
            return _mkstr(out), i
        u2 = data[i + 2] + data[i + 3] * 256 if le else data[i + 2] * 256 + data[i + 3]
        if u2 < 0xDC00 or u2 > 0xDFFF:
            raise _dec_err(enc, i, i + 2, 'illegal UTF-16 surrogate')
        out.append(0x10000 + (u - 0xD800) * 1024 + (u2 - 0xDC00))
        i += 4
    if i < n and final:
        raise _dec_err(enc, i, n, 'truncated data')
    return _mkstr(out), i


def utf_16_le_decode(data, errors='strict', final=False):
    return _utf_16_decode(data, final, True, 'utf-16-le')


def utf_16_be_decode(data, errors='strict', final=False):
    return _utf_16_decode(data, final, False, 'utf-16-be')


def encode_values(s, encoding):
    """str.encode(encoding) (strict) as a list of byte values."""
    enc = encoding.lower().replace('_', '-')
    out = []
    idx = 0
    for ch in s:
        cp = ord(ch)
        if enc == 'ascii':
            if cp >= 128:
                raise UnicodeEncodeError('ascii', '\x00' * (idx + 1), idx, idx + 1, 'ordinal not in range(128)')
            out.append(cp)
        elif enc in ('utf-8', 'utf8'):
            if cp < 0x80:
                out.append(cp)
            elif cp < 0x800:
                out.append(0xC0 + cp // 64)
                out.append(0x80 + cp % 64)
            elif cp < 0x10000:
                if 0xD800 <= cp <= 0xDFFF:
                    raise UnicodeEncodeError('utf-8', '\x00' * (idx + 1), idx, idx + 1, 'surrogates not allowed')
                out.append(0xE0 + cp // 4096)
                out.append(0x80 + (cp // 64) % 64)
                out.append(0x80 + cp % 64)
            else:
                out.append(0xF0 + cp // 262144)
                out.append(0x80 + (cp // 4096) % 64)
                out.append(0x80 + (cp // 64) % 64)
                out.append(0x80 + cp % 64)
        elif enc in ('utf-16-le', 'utf-16-be'):
            le = enc == 'utf-16-le'
            if 0xD800 <= cp <= 0xDFFF:
                raise UnicodeEncodeError(enc, '\x00' * (idx + 1), idx, idx + 1, 'surrogates not allowed')
            if cp < 0x10000:
                units = [cp]
            else:
                c2 = cp - 0x10000
                units = [0xD800 + c2 // 1024, 0xDC00 + c2 % 1024]
            for u in units:
                if le:
                    out.append(u % 256)
                    out.append(u // 256)
                else:
                    out.append(u // 256)
                    out.append(u % 256)
        else:
            raise LookupError('model has no encoding ' + encoding)
        idx += 1
    return out


def selftest_codecs():
    import codecs
    import itertools
    import random
    real = {'utf-8': codecs.utf_8_decode, 'utf-16-le': codecs.utf_16_le_decode, 'utf-16-be': codecs.utf_16_be_decode}
    mine = {'utf-8': utf_8_decode, 'utf-16-le': utf_16_le_decode, 'utf-16-be': utf_16_be_decode}

    def cmp(enc, b, final):
        try:
            want = real[enc](b, 'strict', final)
        except UnicodeDecodeError as e:
            want = ('ERR', e.start, e.end, e.reason, e.encoding)
        try:
            got = mine[enc](b, 'strict', final)
        except UnicodeDecodeError as e:
            got = ('ERR', e.start, e.end, e.reason, e.encoding)
        if want != got:
            raise AssertionError('%s decode %r final=%r: model %r real %r' % (enc, b, final, got, want))
    n = 0
    interesting = [0, 0x41, 0x7f, 0x80, 0x85, 0x9f, 0xa0, 0xbf, 0xc0, 0xc1, 0xc2, 0xd8, 0xdb, 0xdc, 0xdf, 0xe0, 0xe1, 0xec,
                   0xed, 0xee, 0xef, 0xf0, 0xf1, 0xf3, 0xf4, 0xf5, 0xfe, 0xff, 0x8f, 0x90, 0x0a, 0x28]
    for L in range(0, 3):
        for tup in itertools.product(range(256), repeat=L):
            b = bytes(tup)
            for enc in real:
                for final in (False, True):
                    cmp(enc, b, final)
            n += 1
    for L in (3, 4):
        for tup in itertools.product(interesting if L == 3 else interesting[3::2], repeat=L):
            b = bytes(tup)
            for enc in real:
                for final in (False, True):
                    cmp(enc, b, final)
            n += 1
    rnd = random.Random(11)
    for _ in range(20000):
        s = ''.join(chr(rnd.choice([rnd.randrange(0x80), rnd.randrange(0x800), rnd.randrange(0x10000), rnd.randrange(0x110000)]))
                    for _ in range(rnd.randrange(0, 6)))
        for enc in ('ascii', 'utf-8', 'utf-16-le', 'utf-16-be'):
            try:
                want = list(s.encode(enc))
            except UnicodeEncodeError as e:
                want = ('ERR', e.start, e.reason)     # (e.end spans the whole bad run in CPython; unused by yaml)
            try:
                got = encode_values(s, enc)
            except UnicodeEncodeError as e:
                got = ('ERR', e.start, e.reason)
            if want != got:
                raise AssertionError('encode %r %s: model %r real %r' % (s, enc, got, want))
            if enc != 'ascii' and isinstance(want, list):
                b = bytes(want)
                k = rnd.randrange(0, len(b) + 1)
                cmp(enc, b[:k], False)
                cmp(enc, b[:k], True)
        n += 1
    return 'codec models agree with codecs.utf_8/16_decode (error start/end/reason included) and str.encode on %d inputs' % n


def selftest_lower():
    """facts behind model M9"""
    n = 0
    for cp in range(128, 0x110000):
        if 0xD800 <= cp <= 0xDFFF:
            continue
        l = chr(cp).lower()
        n += 1
        if cp == 0x130:
            assert l == 'i\u0307'
        elif cp == 0x212A:
            assert l == 'k'
        elif cp in _ND_SET or cp in _SPACE_HI_SET:
            assert l == chr(cp), hex(cp)
        else:
            assert len(l) == 1 and ord(l) >= 128 and ord(l) not in _ND_SET and ord(l) not in _SPACE_HI_SET, hex(cp)
    for cp in range(128):
        assert chr(cp).lower() == (chr(cp + 32) if 65 <= cp <= 90 else chr(cp))
    return 'str.lower() facts of model M9 hold for all %d non-ASCII code points' % n
