"""Subprocess entry: explore one job of one harness module, write a JSON result."""
import importlib
import json
import os
import sys
import time
import traceback


def main():
    mod_name, tier, job_id, out = sys.argv[1:5]
    here = os.path.dirname(os.path.dirname(os.path.abspath(__file__)))
    sys.path.insert(0, here)
    from symex import hlib
    sys.path.insert(0, hlib.REPO_LIB)
    sys.setrecursionlimit(20000)
    res = {'job': job_id, 'module': mod_name, 'tier': tier}
    t0 = time.time()
    cov = None
    if os.environ.get('VERIF_COVERAGE'):
        # development aid (tools/coverage.sh): line coverage of lib/yaml under the symbolic exploration, sys.monitoring core
        os.environ.setdefault('COVERAGE_CORE', 'sysmon')
        import coverage
        cov = coverage.Coverage(data_file=os.path.join(os.environ['VERIF_COVERAGE'], 'cov.%s.%d' % (mod_name, os.getpid())),
                                include=[os.path.join(hlib.REPO_LIB, 'yaml', '*')])
        cov.start()
    try:
        from symex import models, engine
        mod = importlib.import_module('harness.' + mod_name)
        patches = models.overrides(m1=getattr(mod, 'M1', True))
        models.install_opcode_models(m1=getattr(mod, 'M1', True))
        if getattr(mod, 'FLOATS_AS_REALS', False):
            models.floats_as_reals()
        jobs = {j.id: j for j in mod.jobs(tier)}
        job = jobs[job_id]
        hlib.snapshot_library_state()
        if getattr(job, 'ieee', False):
            models.floats_as_reals()
            models.ieee_rounding()
        scale = float(os.environ.get('VERIF_BUDGET_SCALE', '1'))
        budget = float(os.environ.get('VERIF_JOB_BUDGET', job.budget))
        r = engine.run_cell(job.fn, job.pre, budget * scale, per_path_timeout=job.per_path_timeout, extra_patches=patches)
        res.update(r)
        res['fn'] = job.fn.__name__
        res['need_reach'] = job.need_reach
        res['exhaust_expected'] = job.exhaust
        res['bounds'] = job.bounds
        if res['status'] == 'CONFIRMED' and job.need_reach and res['reached'] == 0:
            res['status'] = 'VACUOUS'
    except BaseException as e:  # noqa
        res['status'] = 'ERROR'
        res['error'] = ''.join(traceback.format_exception(type(e), e, e.__traceback__))[-4000:]
    if cov is not None:
        cov.stop()
        cov.save()
    res['total_wall_s'] = round(time.time() - t0, 2)
    with open(out, 'w') as f:
        json.dump(res, f)


if __name__ == '__main__':
    main()
