"""Stand-in objects installed in a module namespace of the library for the duration of
one harness call (DESIGN.md 2.3: M4, M8).  /repo is never edited: the *name* `base64`
/ `codecs` / `sys` inside yaml.constructor / yaml.reader is rebound to an object with the
same interface whose functions are the pure-Python models of pymodels.py, and restored
in `finally`.  In concrete mode (replay, self-tests) nothing is installed."""
import binascii
import contextlib
import types

from . import hlib, pymodels


def _decodebytes(b):
    try:
        return bytes(pymodels.b64_decode_values(b, error=binascii.Error))
    except binascii.Error:
        raise


def _encodebytes(b):
    return bytes(pymodels.b64_encode_values(b))


B64 = types.SimpleNamespace(decodebytes=_decodebytes, encodebytes=_encodebytes)


@contextlib.contextmanager
def swap(module, name, standin):
    if hlib.CONCRETE:
        yield
        return
    # (a tree under test may no longer bind the name at module level: then there is nothing to
    # stand in for, and the code runs with whatever it binds itself)
    missing = object()
    real = getattr(module, name, missing)
    if real is missing:
        yield
        return
    setattr(module, name, standin)
    try:
        yield
    finally:
        setattr(module, name, real)
