"""Concrete re-execution of sampled symbolic paths (run with /venv/bin/python, no CrossHair):
every sampled argument tuple is pushed through the same harness function against the real
library with no stand-in, and the concrete verdict must equal the symbolic one."""
import ast
import importlib
import json
import os
import sys


def main():
    os.environ['VERIF_CONCRETE'] = '1'
    here = os.path.dirname(os.path.dirname(os.path.abspath(__file__)))
    sys.path.insert(0, here)
    from symex import hlib
    sys.path.insert(0, hlib.REPO_LIB)
    sys.setrecursionlimit(20000)
    items = json.load(open(sys.argv[1]))
    out = []
    mods = {}
    for it in items:
        try:
            m = mods.get(it['module']) or mods.setdefault(it['module'], importlib.import_module('harness.' + it['module']))
            args = {k: ast.literal_eval(v) for k, v in it['args'].items()}
            verdict = getattr(m, it['fn'])(**args)
        except BaseException as e:  # noqa
            verdict = 'REPLAY-CRASH %s: %s' % (type(e).__name__, e)
        out.append(verdict)
    json.dump(out, open(sys.argv[2], 'w'))


if __name__ == '__main__':
    main()
