"""Helpers shared by the harness modules (importable with or without CrossHair)."""
import json
import os
import sys
import traceback

VERIF = os.path.dirname(os.path.dirname(os.path.abspath(__file__)))
REPO = os.environ.get('VERIF_REPO', '/repo')
REPO_LIB = os.path.join(REPO, 'lib')

# True when a harness is executed concretely (replay, self-tests): no engine-side
# stand-ins are installed, the real codecs / sys / builtins are used.
CONCRETE = os.environ.get('VERIF_CONCRETE') == '1'

_path_state = {'reach': False}


def _path_reset():
    _path_state['reach'] = False
    restore_library_state()


# Every explored path stands for a call made on a freshly imported library.  The paths of a
# cell run one after the other in one process, so module-level and class-level containers of
# the yaml package (constructor / representer / resolver tables and anything a change to the
# library may add next to them) are put back, in place, to what they were when the worker
# finished importing the harness.  Without this a change that leaves state on a class is seen
# by the first path only and then hides behind itself.
_LIB_BASE = None
_YAML_MODULES = ('yaml', 'yaml.reader', 'yaml.scanner', 'yaml.parser', 'yaml.composer', 'yaml.constructor', 'yaml.resolver', 'yaml.representer',
                 'yaml.serializer', 'yaml.emitter', 'yaml.loader', 'yaml.dumper', 'yaml.cyaml', 'yaml.nodes', 'yaml.events', 'yaml.tokens', 'yaml.error')


def _copy1(v):
    """copy of a container, and of the lists / dicts directly inside it"""
    inner = lambda x: list(x) if type(x) is list else dict(x) if type(x) is dict else x
    if isinstance(v, dict):
        return {k: inner(x) for k, x in v.items()}
    if isinstance(v, list):
        return [inner(x) for x in v]
    return set(v)


def snapshot_library_state():
    global _LIB_BASE
    import sys
    owners, conts = [], []
    seen = set()
    for mname in _YAML_MODULES:
        mod = sys.modules.get(mname)
        if mod is None:
            continue
        for name, v in list(vars(mod).items()):
            if name.startswith('__'):
                continue
            if type(v) in (dict, list, set) and id(v) not in seen:
                seen.add(id(v))
                conts.append((v, _copy1(v)))
            elif isinstance(v, type) and (v.__module__ or '').startswith('yaml') and id(v) not in seen:
                seen.add(id(v))
                owners.append((v, set(vars(v).keys())))
                for an, av in list(vars(v).items()):
                    if type(av) in (dict, list, set) and id(av) not in seen:
                        seen.add(id(av))
                        conts.append((av, _copy1(av)))
    _LIB_BASE = (owners, conts)


def ensure_library_snapshot():
    if _LIB_BASE is None:
        snapshot_library_state()


def restore_library_state():
    if _LIB_BASE is None:
        return
    owners, conts = _LIB_BASE
    for cls, names in owners:
        for an in [a for a in vars(cls).keys() if a not in names]:
            if type(vars(cls)[an]) in (dict, list, set):
                try:
                    delattr(cls, an)
                except Exception:
                    pass
    for obj, saved in conts:
        fresh = _copy1(saved)
        if isinstance(obj, dict):
            obj.clear()
            obj.update(fresh)
        elif isinstance(obj, list):
            obj[:] = fresh
        else:
            obj.clear()
            obj.update(fresh)


def reach():
    """Mark that the current path got into the region the postcondition talks about
    (the reachability twin: a cell in which no path reaches is vacuous)."""
    _path_state['reach'] = True


class Job:
    def __init__(self, jid, fn, pre=(), budget=60, need_reach=True, exhaust=True,
                 per_path_timeout=None, note='', bounds='', ieee=False):
        self.id = jid
        self.fn = fn
        self.pre = list(pre)
        self.budget = budget
        self.need_reach = need_reach
        # exhaust=False declares the cell bug-hunting only (not expected to confirm)
        self.exhaust = exhaust
        self.per_path_timeout = per_path_timeout
        self.note = note
        self.bounds = bounds
        # ieee=True: results of float arithmetic are rounded to binary64 (model M12) instead of staying exact
        self.ieee = ieee


def repo_frame(exc):
    """Innermost frame of `exc`'s traceback that lies in /repo/lib/yaml -> 'function'."""
    name = None
    tb = exc.__traceback__
    while tb is not None:
        fn = tb.tb_frame.f_code.co_filename
        if '/lib/yaml/' in fn or fn.endswith('canonical.py'):
            name = tb.tb_frame.f_code.co_name
        tb = tb.tb_next
    return name or '?'


def exc_sig(exc):
    return '%s@%s' % (type(exc).__name__, repo_frame(exc))


def not_a_finding(exc):
    """Exceptions that are artefacts of symbolic execution, never of the library:
    re-raise them so that the engine ends the path as UNKNOWN instead of the harness
    reporting them."""
    if CONCRETE:
        return
    try:
        from crosshair.core import suspected_proxy_intolerance_exception
        from crosshair.util import CrosshairUnsupported
    except Exception:
        return
    if suspected_proxy_intolerance_exception(exc):
        raise CrosshairUnsupported('proxy intolerance: %r' % (exc,))


# ---------------------------------------------------------------- known findings
_KF = None
_KF_ACTIVE = None


def known_findings():
    global _KF
    if _KF is None:
        p = os.path.join(VERIF, 'known_findings.json')
        _KF = json.load(open(p))['findings'] if os.path.exists(p) else []
    return _KF


def active_known(prop):
    """Known (unfixed) findings of `prop` whose witness the runner saw failing on the
    current tree.  The runner passes the active ids in VERIF_KF_ACTIVE."""
    global _KF_ACTIVE
    if _KF_ACTIVE is None:
        _KF_ACTIVE = set(filter(None, os.environ.get('VERIF_KF_ACTIVE', '').split(',')))
    return [f for f in known_findings()
            if f.get('status') == 'known' and prop in f['properties'] and f['id'] in _KF_ACTIVE]


_PRED_CACHE = {}


def fail(prop, sig, **args):
    """Verdict for a failing path: 'known:<id>' if a listed, still-active finding
    explains it (same outcome signature and its input predicate holds), else `sig`."""
    for f in active_known(prop):
        if sig not in f['signature']:
            continue
        pred = _PRED_CACHE.get(f['id'])
        if pred is None:
            from spec import yaml11_types as spec
            pred = _PRED_CACHE[f['id']] = eval('lambda a: ' + f['predicate'], {'__builtins__': __builtins__, 'spec': spec})
        try:
            if pred(args):
                return 'known:' + f['id']
        except KeyError:
            continue
    return sig


def no_library_imports(prop):
    """Decorator for harness functions of the confinement properties: while the harness runs,
    builtins.__import__ is a recorder that delegates to the real one; an `import` statement (or an
    __import__ call) executed from a module of the yaml package turns an otherwise clean verdict
    into a violation.  sys.modules alone cannot show it: the module may already be loaded in this
    process, it would not be in the user's."""
    import builtins
    import functools

    def deco(fn):
        @functools.wraps(fn)
        def wrapper(*a, **k):
            log = []
            real = builtins.__import__

            def watch(name, globals=None, locals=None, fromlist=(), level=0):
                if globals is not None and str(globals.get('__name__', '')).split('.')[0] == 'yaml':
                    log.append(str(name))
                return real(name, globals, locals, fromlist, level)
            builtins.__import__ = watch
            # the import machinery reached by name: importlib.import_module / importlib.__import__ always import;
            # importlib.util.find_spec / pkgutil.find_loader / pkgutil.get_loader import the parent packages of a dotted name
            import importlib
            import importlib.util
            import pkgutil
            import sys as _sys
            saved = []

            def recorder(owner, attr, always):
                orig = getattr(owner, attr, None)
                if orig is None:
                    return

                def rec(name, *aa, **kk):
                    caller = _sys._getframe(1).f_globals.get('__name__', '')
                    if str(caller).split('.')[0] != 'yaml':
                        return orig(name, *aa, **kk)
                    if always or '.' in name:
                        log.append('%s(%s)' % (attr, 'dotted name: parent packages get imported' if not always else 'name'))
                        raise ImportError('import machinery reached during a confined load')
                    return None
                saved.append((owner, attr, orig))
                setattr(owner, attr, rec)
            recorder(importlib, 'import_module', True)
            recorder(importlib, '__import__', True)
            recorder(importlib.util, 'find_spec', False)
            recorder(pkgutil, 'find_loader', False)
            recorder(pkgutil, 'get_loader', False)
            try:
                r = fn(*a, **k)
            finally:
                builtins.__import__ = real
                for owner, attr, orig in saved:
                    setattr(owner, attr, orig)
            if log and (r == 'ok' or r.startswith('known:')):
                return fail(prop, 'IMPORT code of the yaml package executed an import during the load: ' + ', '.join(sorted(set(log))))
            return r
        return wrapper
    return deco


def pick(i, seq):
    """seq[i] through an explicit if-chain (no symbolic indexing)."""
    n = len(seq)
    for j in range(n - 1):
        if i == j:
            return seq[j]
    return seq[n - 1]


class _Null:
    def __enter__(self):
        return self

    def __exit__(self, *a):
        return False


def untraced():
    """Context manager: run a purely concrete part of a harness (snapshots, restores,
    comparisons of concrete tables) outside the tracing interpreter.  Only for code
    that touches no symbolic value."""
    if CONCRETE:
        return _Null()
    try:
        from crosshair.tracers import NoTracing, is_tracing
    except Exception:
        return _Null()
    return NoTracing() if is_tracing() else _Null()
