"""Helpers shared by the harness modules (importable with or without CrossHair)."""
import json
import os
import sys
import traceback

VERIF = os.path.dirname(os.path.dirname(os.path.abspath(__file__)))
REPO = os.environ.get('VERIF_REPO', '/repo')
REPO_LIB = os.path.join(REPO, 'lib')

# True when a harness is executed concretely (replay, self-tests): no engine-side
# stand-ins are installed, the real codecs / sys / builtins are used.
CONCRETE = os.environ.get('VERIF_CONCRETE') == '1'

_path_state = {'reach': False}


def _path_reset():
    _path_state['reach'] = False


def reach():
    """Mark that the current path got into the region the postcondition talks about
    (the reachability twin: a cell in which no path reaches is vacuous)."""
    _path_state['reach'] = True


class Job:
    def __init__(self, jid, fn, pre=(), budget=60, need_reach=True, exhaust=True,
                 per_path_timeout=None, note='', bounds='', ieee=False):
        self.id = jid
        self.fn = fn
        self.pre = list(pre)
        self.budget = budget
        self.need_reach = need_reach
        # exhaust=False declares the cell bug-hunting only (not expected to confirm)
        self.exhaust = exhaust
        self.per_path_timeout = per_path_timeout
        self.note = note
        self.bounds = bounds
        # ieee=True: results of float arithmetic are rounded to binary64 (model M12) instead of staying exact
        self.ieee = ieee


def repo_frame(exc):
    """Innermost frame of `exc`'s traceback that lies in /repo/lib/yaml -> 'function'."""
    name = None
    tb = exc.__traceback__
    while tb is not None:
        fn = tb.tb_frame.f_code.co_filename
        if '/lib/yaml/' in fn or fn.endswith('canonical.py'):
            name = tb.tb_frame.f_code.co_name
        tb = tb.tb_next
    return name or '?'


def exc_sig(exc):
    return '%s@%s' % (type(exc).__name__, repo_frame(exc))


def not_a_finding(exc):
    """Exceptions that are artefacts of symbolic execution, never of the library:
    re-raise them so that the engine ends the path as UNKNOWN instead of the harness
    reporting them."""
    if CONCRETE:
        return
    try:
        from crosshair.core import suspected_proxy_intolerance_exception
        from crosshair.util import CrosshairUnsupported
    except Exception:
        return
    if suspected_proxy_intolerance_exception(exc):
        raise CrosshairUnsupported('proxy intolerance: %r' % (exc,))


# ---------------------------------------------------------------- known findings
_KF = None
_KF_ACTIVE = None


def known_findings():
    global _KF
    if _KF is None:
        p = os.path.join(VERIF, 'known_findings.json')
        _KF = json.load(open(p))['findings'] if os.path.exists(p) else []
    return _KF


def active_known(prop):
    """Known (unfixed) findings of `prop` whose witness the runner saw failing on the
    current tree.  The runner passes the active ids in VERIF_KF_ACTIVE."""
    global _KF_ACTIVE
    if _KF_ACTIVE is None:
        _KF_ACTIVE = set(filter(None, os.environ.get('VERIF_KF_ACTIVE', '').split(',')))
    return [f for f in known_findings()
            if f.get('status') == 'known' and prop in f['properties'] and f['id'] in _KF_ACTIVE]


_PRED_CACHE = {}


def fail(prop, sig, **args):
    """Verdict for a failing path: 'known:<id>' if a listed, still-active finding
    explains it (same outcome signature and its input predicate holds), else `sig`."""
    for f in active_known(prop):
        if sig not in f['signature']:
            continue
        pred = _PRED_CACHE.get(f['id'])
        if pred is None:
            from spec import yaml11_types as spec
            pred = _PRED_CACHE[f['id']] = eval('lambda a: ' + f['predicate'], {'__builtins__': __builtins__, 'spec': spec})
        try:
            if pred(args):
                return 'known:' + f['id']
        except KeyError:
            continue
    return sig


def pick(i, seq):
    """seq[i] through an explicit if-chain (no symbolic indexing)."""
    n = len(seq)
    for j in range(n - 1):
        if i == j:
            return seq[j]
    return seq[n - 1]


class _Null:
    def __enter__(self):
        return self

    def __exit__(self, *a):
        return False


def untraced():
    """Context manager: run a purely concrete part of a harness (snapshots, restores,
    comparisons of concrete tables) outside the tracing interpreter.  Only for code
    that touches no symbolic value."""
    if CONCRETE:
        return _Null()
    try:
        from crosshair.tracers import NoTracing, is_tracing
    except Exception:
        return _Null()
    return NoTracing() if is_tracing() else _Null()
