"""Path-by-path symbolic exploration of one harness cell with CrossHair + z3.

The loop is CrossHair's own `explore_paths` (crosshair/core.py) unrolled so that the
worker can record, per path: status, a realised sample of the arguments, the harness
verdict, and solver accounting.  The engine's decision procedure is unchanged: every
branch on a symbolic value is a z3 query, a path ends CONFIRMED / REFUTED / UNKNOWN,
and the search tree reports exhaustion only when every branch of every decision
(including realisation forks) has been closed.

A harness is a plain function of annotated scalar arguments that calls the real
library and returns a verdict string:
    'ok'            the property held on this path
    'known:<id>'    the path reproduces a listed known finding (treated as held)
    anything else   a violation description
Preconditions / partitions are callables over the same arguments; a false
precondition ends the path as "ignored" (not counted).
"""
import inspect
import sys
import time

import z3

import crosshair.core_and_libs  # noqa: registers the builtin models
from crosshair import core
from crosshair.core import (
    ExceptionFilter, Patched, deep_realize, gen_args, realize,
)
from crosshair.condition_parser import condition_parser
from crosshair.copyext import CopyMode, deepcopyext
from crosshair.options import DEFAULT_OPTIONS, AnalysisOptionSet
from crosshair.statespace import (
    CallAnalysis, RootNode, StateSpace, StateSpaceContext, VerificationStatus,
    prefer_true,
)
from crosshair.tracers import COMPOSITE_TRACER, NoTracing, ResumedTracing
from crosshair.util import (
    CrossHairInternal, IgnoreAttempt, NotDeterministic, UnexploredPath,
)

from . import hlib

_solver_stats = {'checks': 0, 'seconds': 0.0, 'unknown': 0}


def _wrap_solver():
    orig = z3.Solver.check
    if getattr(orig, '_verif_wrapped', False):
        return

    def check(self, *a):
        t0 = time.perf_counter()
        r = orig(self, *a)
        _solver_stats['checks'] += 1
        _solver_stats['seconds'] += time.perf_counter() - t0
        if r == z3.unknown:
            _solver_stats['unknown'] += 1
        return r
    check._verif_wrapped = True
    z3.Solver.check = check


def _safe_repr_args(d):
    out = {}
    for k, v in d.items():
        out[k] = repr(v)
    return out


def run_cell(fn, pre_list, budget_s, per_path_timeout=None, max_samples=6, max_paths=None,
             want_all_refutations=False, extra_patches=None):
    """Explore `fn` over all arguments satisfying every predicate of `pre_list`.

    Returns a dict with status in {CONFIRMED, REFUTED, UNKNOWN, VACUOUS, ERROR}.
    """
    _wrap_solver()
    for k in _solver_stats:
        _solver_stats[k] = 0 if k != 'seconds' else 0.0
    sig = inspect.signature(fn)
    options = DEFAULT_OPTIONS.overlay(AnalysisOptionSet(
        per_condition_timeout=float(budget_s),
        per_path_timeout=per_path_timeout,
        max_uninteresting_iterations=sys.maxsize,
    ))
    search_root = RootNode()
    t_start = time.time()
    deadline = t_start + budget_s
    res = {
        'paths': 0, 'confirmed': 0, 'ignored': 0, 'unknown_paths': 0, 'known_paths': 0,
        'reached': 0, 'samples': [], 'counterexamples': [], 'exhausted': False,
        'known_ids': {}, 'unknown_reasons': {}, 'ignore_reasons': {},
    }
    ppt = options.get_per_path_timeout()
    i = 0
    while True:
        i += 1
        if time.time() > deadline or (max_paths and i > max_paths):
            break
        itr_start = time.process_time()
        space = StateSpace(
            execution_deadline=itr_start + ppt,
            model_check_timeout=ppt / 2,
            search_root=search_root,
        )
        status = None
        verdict = None
        sample = None
        hlib._path_reset()
        with (condition_parser(options.analysis_kind), Patched(), COMPOSITE_TRACER,
              NoTracing(), StateSpaceContext(space)):
            if extra_patches:
                COMPOSITE_TRACER.patching_module.add(extra_patches)
            try:
                pre_args = gen_args(sig)
                args = deepcopyext(pre_args, CopyMode.REGULAR, {})
                ok = True
                with ExceptionFilter() as efilter, ResumedTracing():
                    for p in pre_list:
                        if not p(*args.args, **args.kwargs):
                            ok = False
                            break
                if efilter.user_exc:
                    raise CrossHairInternal('precondition raised: %r' % (efilter.user_exc[0],))
                if efilter.ignore or not ok:
                    raise IgnoreAttempt('precondition')
                ret = None
                with ExceptionFilter() as efilter, ResumedTracing():
                    ret = fn(*args.args, **args.kwargs)
                if efilter.ignore:
                    raise IgnoreAttempt('ignored in body')
                if efilter.user_exc:
                    exc = efilter.user_exc[0]
                    if isinstance(exc, NotDeterministic):
                        raise NotDeterministic
                    # an exception escaping the harness itself is a harness bug
                    tb = ''.join(efilter.user_exc[1].format()[-6:])
                    verdict = 'HARNESS-EXC %s: %s\n%s' % (type(exc).__name__, exc, tb)
                else:
                    with ResumedTracing():
                        verdict = realize(ret)
                    if not isinstance(verdict, str):
                        verdict = 'HARNESS-BADRET %r' % (verdict,)
                good = verdict == 'ok' or verdict.startswith('known:')
                take_sample = (not good) or len(res['samples']) < max_samples or \
                    (hlib._path_state['reach'] and res['reached'] < 3)
                if take_sample:
                    with ResumedTracing():
                        space.detach_path()
                        sample = _safe_repr_args(deep_realize(dict(pre_args.arguments)))
                status = VerificationStatus.CONFIRMED if good else VerificationStatus.REFUTED
            except IgnoreAttempt as e:
                status = None
                r = 'ignore: ' + (str(e) or '?')[:80]
                res['ignore_reasons'][r] = res['ignore_reasons'].get(r, 0) + 1
            except UnexploredPath as e:
                status = VerificationStatus.UNKNOWN
                r = type(e).__name__ + ': ' + str(e)[:120]
                res['unknown_reasons'][r] = res['unknown_reasons'].get(r, 0) + 1
            except NotDeterministic:
                status = VerificationStatus.UNKNOWN
                res['unknown_reasons']['NotDeterministic'] = res['unknown_reasons'].get('NotDeterministic', 0) + 1
            finally:
                if extra_patches:
                    COMPOSITE_TRACER.patching_module.pop(extra_patches)
            _analysis, exhausted = space.bubble_status(CallAnalysis(status))
        res['paths'] += 1
        if status is None:
            res['ignored'] += 1
        elif status == VerificationStatus.UNKNOWN:
            res['unknown_paths'] += 1
        elif status == VerificationStatus.CONFIRMED:
            res['confirmed'] += 1
            if hlib._path_state['reach']:
                res['reached'] += 1
            if verdict.startswith('known:'):
                res['known_paths'] += 1
                kid = verdict[6:]
                res['known_ids'][kid] = res['known_ids'].get(kid, 0) + 1
            if sample is not None:
                res['samples'].append({'args': sample, 'verdict': verdict,
                                       'reach': bool(hlib._path_state['reach'])})
        else:
            res['counterexamples'].append({'args': sample, 'verdict': verdict})
            if not want_all_refutations or len(res['counterexamples']) >= 5:
                break
        if exhausted:
            res['exhausted'] = True
            break
    res['wall_s'] = round(time.time() - t_start, 2)
    res['solver_checks'] = _solver_stats['checks']
    res['solver_s'] = round(_solver_stats['seconds'], 2)
    res['solver_unknown'] = _solver_stats['unknown']
    if res['counterexamples']:
        res['status'] = 'REFUTED'
    elif res['exhausted'] and res['unknown_paths'] == 0:
        res['status'] = 'VACUOUS' if res['confirmed'] == 0 else 'CONFIRMED'
    else:
        res['status'] = 'UNKNOWN'
    return res
