#!/bin/bash
# tools/seedall.sh [glob]   re-verifies the seeded changes kept under seeded/ (default: all) against the current checks:
#   scratch worktree of /repo + patch.diff -> existing test suite, demo.py, ./check <id> --tier quick with VERIF_REPO=<worktree>
#   prints one line per seed; /repo itself is never touched; the worktree is removed afterwards
cd "$(dirname "$0")/.."
pat=${1:-*}
for d in seeded/$pat/; do
  name=$(basename $d); id=${name%%-*}
  wt=/tmp/seedall_$name
  git -C /repo worktree add -q --detach $wt HEAD || { echo "$name: cannot create worktree"; continue; }
  cp /repo/lib/yaml/_yaml*.so $wt/lib/yaml/ 2>/dev/null
  if git -C $wt apply $PWD/$d/patch.diff; then
    tests=$(cd $wt && PYTHONPATH=$wt/lib timeout 900 /venv/bin/python -m pytest -q -p no:cacheprovider 2>&1 | tail -1)
    demo=$(PYTHONPATH=$wt/lib /venv/bin/python $d/demo.py >/dev/null 2>&1; echo $?)
    VERIF_REPO=$wt ./check $id --tier quick > /tmp/seedall_$name.log 2>&1; rc=$?
    echo "$name tests=[$tests] demo_with_change=$demo check_rc=$rc violations=$(grep -c '^VIOLATION' /tmp/seedall_$name.log) $(grep -m1 'violated in' /tmp/seedall_$name.log | cut -c1-160)"
  else
    echo "$name: patch does not apply"
  fi
  git -C /repo worktree remove --force $wt; rm -rf $wt.evidence
  find replays -name '*.py' -newer $d/patch.diff -mmin -30 -delete 2>/dev/null
done
