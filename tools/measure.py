#!/usr/bin/env python3
"""prints the table of DESIGN.md section 7 from evidence/*.json"""
import glob, json, os
HERE = os.path.dirname(os.path.dirname(os.path.abspath(__file__)))
tot = [0] * 9
print('| id | cells | confirmed | inconclusive | SMT queries | paths | z3 `check()` calls | solver s | validated paths | wall s |')
print('|---|---|---|---|---|---|---|---|---|---|')
for f in sorted(glob.glob(os.path.join(HERE, 'evidence', 'C*.json'))):
    e = json.load(open(f))
    c = e['coverage']
    cells = c['cells']
    cl = cells.values() if isinstance(cells, dict) else cells
    n = len(cl)
    conf = sum(1 for x in cl if x.get('status') == 'CONFIRMED')
    inc = len([x for x in c['inconclusive_cells'] if not str(x).startswith('smt:')])
    smt = len(c['smt_queries'])
    paths = sum(x.get('paths', 0) for x in cl)
    row = [n, conf, inc, smt, paths, c['transitions'], round(c['solver_seconds']), c['traces_validated_against_impl'], round(e['wall_s'])]
    print('| %s | %s |' % (e['property_id'], ' | '.join(map(str, row))))
    tot = [a + b for a, b in zip(tot, row)]
print('| all | %s |' % ' | '.join(map(str, tot)))
