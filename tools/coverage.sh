#!/bin/bash
# tools/coverage.sh [tier] [ids...]  development aid: line coverage of lib/yaml reached by the symbolic exploration of the checks
#   (sys.monitoring core of coverage.py next to CrossHair's tracer). Runs against a scratch worktree so evidence/ is not touched.
#   Output: /tmp/verif_cov/report.txt (per file, missing lines). Not part of any check; tells where no cell ever goes.
cd "$(dirname "$0")/.."
tier=${1:-quick}; shift
ids=${@:-$(python3 -c "import json; print(' '.join(c['property_id'] for c in json.load(open('MANIFEST.json'))['checks']))")}
wt=/tmp/verif_covrepo; out=/tmp/verif_cov
rm -rf $out; mkdir -p $out
git -C /repo worktree add -q --detach $wt HEAD || exit 2
cp /repo/lib/yaml/_yaml*.so $wt/lib/yaml/ 2>/dev/null
trap 'git -C /repo worktree remove --force '$wt'; rm -rf '$wt'.evidence' EXIT
for id in $ids; do
  VERIF_REPO=$wt VERIF_COVERAGE=$out ./check $id --tier $tier > $out/log.$id 2>&1
  echo "$id rc=$? $(grep '^== ' $out/log.$id | tail -1)"
  /venv/bin/python -m coverage combine -q --data-file=$out/prop.$id $out/cov.* 2>/dev/null
done
/venv/bin/python -m coverage combine -q --keep --data-file=$out/all $out/prop.* 2>/dev/null
/venv/bin/python -m coverage report -m --data-file=$out/all > $out/report.txt 2>&1
tail -22 $out/report.txt | cut -c1-60
