#!/usr/bin/env python3
"""Regenerates MANIFEST.json from the table below (one place to keep it consistent)."""
import json, os
HERE = os.path.dirname(os.path.dirname(os.path.abspath(__file__)))
TECH = 'bounded symbolic execution of the real code (CrossHair + z3), partitioned cells, concrete replay'
C = {}
def claim(pid, text, note, technique=TECH, ref=None):
    C[pid] = dict(text=text, note=note, technique=technique, ref=ref or ('DESIGN.md section 4, ' + pid))

claim('C01',
      'Every cell is an exhaustive symbolic exploration of the real constructor code: for every tag string up to the bound, on every node kind, in 16 placement contexts (4 of them places whose value is overridden and never reaches the result), through the four safe/base classes and the three safe API entry points, z3 decides each branch and the path tree is closed (CONFIRMED over all paths) or a concrete counterexample is replayed. Bounded model checking is the right level: the dispatch code distinguishes finitely many classes of tags, so the bounded claim covers every class. During every explored call builtins.__import__ is a delegating recorder, so an import executed by code of the yaml package during a safe load is seen even when the module is already loaded in the checking process.',
      'Python halves only (text->node for the C loaders is libyaml: outside). Trusted: CrossHair/z3, models M1/M3/M8/M9 (differentially self-tested on each run), nodes built directly. Known findings K1-K3, K5 listed in known_findings.json. K11 (ints over the 4300-digit conversion limit) is reached by a cell whose digit count is the solver variable.')

claim('C04',
      'Exhaustive symbolic exploration of the real FullConstructor dispatch and python/name lookup: every tag up to the bound on every node kind through FullLoader and CFullLoader (Python half), 16 placement contexts (4 of them places whose value is overridden and never reaches the result), the three full_load entry points, every python/name: suffix up to the bound against a 3-module stand-in for sys.modules, and the four object-construction prefixes with arbitrary suffixes. Import, call and instantiation are observed by recorders inside the explored paths, so the verdict covers every input class in the bound rather than sampled documents. A history cell runs a trusted load of an object-building tag first and FullLoader / CFullLoader on the same tag afterwards; imports executed by package code are recorded as in C01.',
      'Python halves only. Trusted: CrossHair/z3, M1/M1b placeholders for error messages, M7 (hasattr/getattr on the stand-in modules), the stand-in for yaml.constructor.sys and __import__. Known finding K5 (merge-source tag ignored).')

claim('C10',
      'One inductive step of the copy-on-write registries from an arbitrary reachable configuration: under each of the 9 shipped roots a 4-class lattice is built, the ownership pre-state (3 bits per table kind), the operation (6 registration kinds, subclass / YAMLObject definition, the 6 module-level helpers), its target and its key are solver variables, and after the real add_* code has run the effective table of every lattice class and of every shipped class is compared with the rule of the property (including list-object aliasing of implicit resolvers). Every cell closes its path tree, so the step is decided for every combination in the bound; two-step histories in the thorough tier check that the pre-state invariant is not too weak. Behaviour cells compare the dispatch (construct_object, represent_data, resolve) of every lattice class with that of a fresh class holding copies of the same effective tables, before and after one or two registrations, so a memoised look-up that outlives a registration is seen although the tables are right.',
      'Registered keys are chosen among {already present, fresh, a core tag, empty} rather than arbitrary strings (inserting a symbolic str into a real dict hashes = realises it). Shipped tables are snapshotted/restored around every path. Histories longer than two steps rest on the inductive argument.')

claim('C03',
      'The real reader, scanner, parser and composer are executed symbolically on every str of up to 2 (quick) / 3 (thorough) characters over the whole code-point range, on deep templates (a concrete prefix with free characters: every escape letter followed by free hex digits, directives, tags, anchors, block headers, quoted and flow forms), on indicator-alphabet strings, and on every short byte string through the byte-level Reader with a pure-Python model of the C codecs. The postcondition (only YAMLError, marks inside the input) is decided per path by z3 and each cell closes its path tree or is reported inconclusive. Termination of the implicit-resolver matchers is decided as an SMT query per unbounded repetition of every live pattern (no word has two factorisations into iterations of the repeated group; z3 regex theory, cvc5 second opinion), a satisfiable query being confirmed by timing the real matcher on the pumped witness.',
      'Py pipeline only. Trusted: CrossHair/z3; M1/M1b error-message placeholders; M3 int(hex) model; M4 codec models (differentially self-tested against codecs on every run). "Never hangs" is decided as "every explored path ended". Fixed finding F1 (\\U escape range) listed in known_findings.json.')
claim('C09',
      'Same symbolic exploration of the real scanner and parser as C03, with the stronger postcondition: token stream accepted by an independent nesting recogniser (for inputs that parse), event stream accepted by an independent recogniser of the event grammar, every token/event/error mark inside the input, start_1 <= end_1 <= start_2 ..., line/column equal to a recount of line breaks in the symbolic input (CR LF once, BOM not counted), mark-delimited text equal to the value for single-line plain scalars, anchors and aliases. The parser alone is additionally driven by every sequence of up to 3 (4) tokens of the 18 kinds fed lazily from a stub source. The parser is also compared with an independent LL(1) recogniser of the token grammar (including which token is rejected) from 41 token prefixes covering every production state, with stub marks that leave gaps between tokens; the simple-key bookkeeping of the scanner is decided as a one-step invariant over unbounded integers.',
      'Py pipeline only. Trusted: CrossHair/z3, M1/M1b placeholders, the reference recognisers in spec/grammar.py. Token nesting is only demanded of inputs that parse (a stream the parser rejects is by definition outside the documented grammar).')

claim('C08',
      'Two engines. (E2) The live compiled patterns of Resolver.yaml_implicit_resolvers and SafeConstructor.timestamp_regexp are translated from their sre parse trees into z3 regular expressions and compared with the YAML 1.1 reference languages: language equality per type, pairwise disjointness, first-character index soundness, converter domain, and inclusion of the representers\' output languages - each an unsat query valid for strings of every length, witnesses replayed through safe_load. (E1) The real resolve(), construct_yaml_* and the serializer/emitter style choice are executed symbolically on every plain text of up to 2 (3) characters, on int/float/timestamp templates with free characters and on every int below 10^6, and compared with an independent digit-by-digit evaluator. Fractional seconds with 4-6 (1-7) free digits are decided with binary64 rounding switched on (model M12), so that a computation routed through a binary float is distinguished from the exact one.',
      'Oracle: spec/yaml11_types.py = the YAML 1.1 type repository restricted to the documented dialect (deviations D1-D4 listed there). Floats are exact rationals under symbolic execution (rounding outside the claim; tolerance on replay). repr(float)/isoformat shapes are modelled as languages. Translator validated against re on the repository scalars on every run. Known findings K1-K4.',
      technique='SMT regular-language queries on the live patterns (z3 seq/re theory) + bounded symbolic execution of resolver/constructors (CrossHair + z3)')

claim('C13',
      'The real Composer is driven by every grammatical event stream that up to 4 (5) instructions of 12 kinds can generate (anchors a/b on scalars, sequences and mappings, aliases, nesting), followed by a second document that aliases the first one\'s anchor; the real constructors of the Safe, Full and Unsafe loaders are driven by node graphs over 2 (3) slots of 6-7 kinds whose child pointers are solver variables (sharing, self and mutual reference, containers and tuples in key position). Verdicts are compared with an independent anchor-table model and a two-phase reference builder by identity-preserving graph isomorphism; every cell closes its path tree. Constructed objects (14 shapes shared with C17: instances with and without __setstate__, reduce/apply/new forms, namedtuple, OrderedDict, list subclass) are placed as three siblings each sharing the previous one, with self-references later in the same document, and compared with what pickle rebuilds.',
      'Py leg only (the C composer cannot be rebuilt or executed symbolically here). Event source and node graphs are built directly by the harness; oracles ref_compose/ref_build live in harness/c13.py. Fixed finding F4 (tuple key holding a list) was found here. Known finding K6 also concerns this property.')
claim('C14',
      'The real flatten_mapping / construct_mapping / construct_yaml_set / omap / pairs are executed on node graphs whose shape is chosen by solver variables: a top mapping of 2 (3) entries of 11 kinds (plain and duplicate keys, single merges, list merges in both orders, repeated merge keys, quoted <<, = key, ill-shaped merge values, unhashable key), a merge source with 2 entries of 4 kinds including a nested merge, a sibling mapping sharing that source, the source also constructed on its own in 3 orders. The result is compared with a non-mutating reference evaluator of the YAML 1.1 merge rules; set/omap/pairs nodes of 8 shapes each; every cell closes its path tree.',
      'Nodes are built directly (the second back-end feeds the same constructor code). Oracle: ref_map() in harness/c14.py. Values are distinct concrete ints so that provenance is identifiable.')

claim('C02',
      'The real SafeRepresenter + Serializer + Emitter and the real Reader + Scanner + Parser + Composer + SafeConstructor are executed symbolically end to end: a str of one free character over the whole code-point range (2 free characters in the thorough tier) in root / key / value / nested contexts under every default_style, both allow_unicode settings and option cells (canonical, width, indent, line_break); 2-3 character strings over a 34-character alphabet holding one representative of every character class the emitter and scanner distinguish; folding texts over {a, space, LF} with width and depth as solver variables; list/dict graphs with symbolic child pointers (sharing, cycles); bytes through the base64 models; ints; a constant table for floats/dates/sets. The postcondition is type-strict equality (graph isomorphism for containers). Keys of 90-140 characters with the length as a solver variable; the load half of the datetime round trip for every microsecond value (six digit variables, binary64 rounding model M12); ints around the 4300-digit conversion limit.',
      'Py leg only. The symbolic str is injected into the ScalarNode that SafeDumper.represent_data produced for a placeholder, and read back at node level, because a real dict cannot hold a symbolic key. Trusted: CrossHair/z3, models M2/M3/M4e/M8. float text is decided in C08 (language queries). Known finding K4; fixed finding F3. Known findings K7, K9, K11; fixed finding F6.')

claim('C05',
      'The real Emitter and the real Scanner + Parser are executed symbolically end to end on event streams whose ingredients are solver variables: the scalar value (one free character over the whole code-point range; 2-character strings over a 34-character class alphabet), the requested style (6), the implicit pair (4), anchor, tag kind (7, one with a free ASCII character and boundary code points of every UTF-8 length class), the skeleton (6), %YAML / %TAG directives, canonical, allow_unicode, width. The parsed events must equal the emitted ones up to legitimate tag elision. Every sequence of up to 4 (5) events over the 10 event classes is fed to the emitter (only EmitterError allowed), and the prepare_* helpers are decided on every string of up to 2 (3) characters. Streams of 2 (3) documents whose roots, directives, explicit markers and root tags (including a tag that is exactly a %TAG prefix) are solver variables; a unit-level cell runs prepare_tag / prepare_tag_prefix -> scanner -> parser on a tag holding one free character over every Unicode scalar value.',
      'Py leg only. %TAG prefixes/handles are picked from class representatives (a dict of handles cannot hold a symbolic key); lone surrogates in tags are outside the claim. Trusted: CrossHair/z3, models M1 (line-based in emitter.py), M2, M4e. Fixed findings F2, F3.')

claim('C11',
      'One step from an arbitrary pre-state for each per-document reset: the real Parser (tag handles = empty / the class-level DEFAULT_TAGS object itself / foreign handles, stale version, up to 2 directive tokens of 5 kinds, explicit or implicit document), Composer, Constructor, Representer, Serializer and Emitter are run on one document and their state compared with what the document alone defines; a deep snapshot of every module- and class-level container of the yaml package is compared before and after each API call explored symbolically (every short input, error paths included) and over a corpus; every ordered pair of a 12-document corpus is loaded as a stream and compared with the documents loaded alone. The selectors are solver variables and every cell closes its path tree. The API calls explored include user objects through the shipped Dumper, through a dumper subclass with a multi-representer and through the trusted loader; before every explored path the engine puts all class-level containers of the package back to their import-time contents.',
      'Py leg only. Token/event sources of the one-step harnesses are stubs. The inductive argument covers call histories of any length only as far as the snapshot covers the global state (all dict/list/set attributes of yaml.* modules and classes).')

claim('C07',
      'The real Reader (and the scanner on top of it) is executed on every delivery form with the chunk schedule as solver variables: a text stream whose first reads return k1, k2 (k3) characters over every str of up to 2 (3) characters and over a 14-document corpus (CR LF pairs, NEL, BOM, multi-byte and astral characters, a non-printable character); byte streams of the corpus in UTF-8, UTF-8+BOM, UTF-16-LE/BE+BOM with symbolic read sizes (splits inside multi-byte sequences and surrogate pairs, between CR and LF, after the first byte); an invalid byte injected at a solver-chosen offset (same ReaderError position however the input is chunked); every byte string of up to 2 (3) bytes through a split stream; documents straddling the 4096 refill boundary. Tokens, values, marks and errors must equal those of the str / whole-bytes form.',
      'Py leg only. Trusted: CrossHair/z3; M4 pure-Python codec models in place of the C codecs (differentially self-tested incl. error start/end/reason); messages compared through the M1 placeholder. How many tokens are handed out before a reader error is not compared (an in-memory str is checked up front, a stream block by block). Known finding K10 (two errors in one input: which one is reported depends on the chunking).')

claim('C12',
      'Streams of 1-3 documents are pushed through the real dump_all / serialize_all / emit and read back with load_all / compose_all / parse, with everything that decides a document boundary as a solver variable: the kind of each root (16 value kinds incl. empty and open-ended plain scalars, keep-chomped block text, ---/... look-alikes, empty and one-element collections, None, a str of one free character over all code points; 8 node kinds incl. the empty null scalar; 8 event kinds), the explicit start/end flags (per document at event level), %YAML / %TAG, default_style, canonical, line_break. Exactly n equal documents must come back, and the text of the first document must be a prefix of the stream whatever follows.',
      'Py leg only. Values are compared for dump_all, node graphs for serialize_all, events for emit. Fixed finding F5 (empty root scalar with an implicit tag lost its document start marker) was found here.')

claim('C15',
      'The raw output of the real emitter is inspected on symbolic inputs: a str of one free character over all code points (and 2-3 character strings over the class alphabet) in root / key / value contexts under every default_style, both allow_unicode settings, the four line breaks and width {5,80}: every output character is printable ASCII or a line break unless allow_unicode, every CR/LF run is the requested break, the library\'s own Reader accepts the text. Option normalisation is decided for ALL integers (indent and width are unbounded solver ints). Directives and markers are counted for every document of 2-document streams over explicit_start/end x version x tags x canonical; block entry lines are checked against the effective indent for indent 0..11; canonical output is fed to the repository\'s independent canonical parser; the encoding / BOM rules are checked on a value table. The simple-key decision is checked around the 128-character limit with the output re-read by the library, and the indentation bookkeeping as a one-step invariant over unbounded integers.',
      'Py leg only. encoding= is exercised on picked values (io.BytesIO is C). Trusted: CrossHair/z3, M2/M4e models, tests/legacy_tests/canonical.py as the independent canonical parser. Known findings K8, K9.')
claim('C16',
      'Relational checks with the order as a solver variable: dicts and sets of 2-3 keys from 8 key pools (ints, strs, int/float and bool/int mixes, negative floats, dates, numeric-looking strs, tuples) are built in every pair of insertion orders (a set\'s iteration order is an explicit permutation) and must dump to the same text with sort_keys, nested or not; without sort_keys the insertion order must survive dump and load; dump(load(dump(x))) == dump(x) over a 24-value table (shared dates, shared and recursive containers, look-alike strings) x 5 styles x 3 flow styles x canonical x sort_keys; anchor names over list/dict graphs with symbolic child pointers, dumped twice from different object identities.',
      'Py leg only. Separate interpreters with different PYTHONHASHSEED are not run: hash randomisation only changes iteration order, which is quantified over explicitly (M6). Anchor ids are handed out at the second encounter of a node, so their textual order is not checked, only that they are id001..idN per document and a function of the graph.')

claim('C18',
      'An instrumented stream records how much has been requested each time the real generator API (load_all, compose_all, parse) hands a document to the caller. The stream is assembled from solver variables: the kinds of the 2-3 leading documents (8 kinds: empty, one character, simple key, flow collection, block scalar, 40 characters, closed by "...", closed by "..." followed by comments), the kind of a 3-block tail (comments, further documents, blank lines, a block sequence), whether a malformed document ends the stream, text or UTF-8 bytes, and the sizes of the first reads. Checked: at most end(k) + 2*4096 units requested when document k is delivered; every well-formed document delivered before the error; the loader disposed exactly once, also when the iteration is abandoned by close / del / break. The bound is checked for every document of the stream, those of the 3-17-block tail included (long-stream cells: 36 KB and more).',
      'Py leg only. Document sizes are concrete (only kinds, schedule and tail are solver variables). A document without a "..." marker ends where the next token begins: comments and blank lines after it have to be crossed before it can be delivered. The look-ahead mechanism itself is decided as a one-step invariant under C09.')
claim('C19',
      'The fault point is a solver variable: the index of the failing read() (text, UTF-8 and UTF-16 streams, 1- and 7-unit reads, including the reads used for encoding detection), of the failing write() or flush(), or of the failing invocation of a user constructor / representer, together with the kind of exception (9 kinds, among them classes the library itself catches or raises: UnicodeDecodeError, UnicodeEncodeError, YAMLError, ReaderError, AttributeError, KeyError). Checked on every path: the very same exception object reaches the caller; what was written before the fault is a prefix of the fault-free output; a following reference load and dump give the reference result; the deep snapshot of the package\'s global state is unchanged. Read faults are also injected under a loader / dumper pair with registered path resolvers, and callback faults under user representers for never-anchored types.',
      'Py leg only. StopIteration is excluded as an injected exception (PEP 479 turns it into RuntimeError inside any generator: a language rule, not library behaviour).')

claim('C17',
      'Object graphs are assembled from solver variables: each of 2 (3) slots takes one of 16 reduction shapes (instance dict, __slots__, __slots__+__dict__, __getstate__/__setstate__, __getnewargs__, __reduce__ with and without arguments, list and dict subclasses with attributes, list, dict, tuple, namedtuple, OrderedDict, set, a leaf table with enum members, complex numbers, classes, functions, modules) and its two child pointers may designate any slot, itself included, or a leaf - shapes nested in each other, sharing and cycles. Every graph goes through the real yaml.dump and yaml.unsafe_load (text level) and is compared, by type-strict bisimulation preserving identity classes, with what pickle protocol 2 rebuilds; a ConstructorError is accepted only for cycles that pass through something other than lists, dicts and plain instance dictionaries; yaml.full_load must accept exactly the tuple / complex / name documents. Every cell closes its path tree in the quick tier. Three-sibling cells (each sibling built on the previous one, 14 shapes, self-references later in the document) interleave eager and two-phase construction.',
      'Py leg only. pickle is C: it runs on the concrete graph the solver variables selected (the oracle is validated on every replay). Float/complex text formatting is outside. Known finding K6 (a self-containing list/dict/instance below deeply constructed arguments or state is rejected).')

NA = {
 'C06': 'every comparison is between two artefacts of libyaml (a compiled system .so behind a Cython binding that cannot be rebuilt offline); symbolic values are realised at the extension boundary, so no solver variable survives into the code under comparison',
 'C20': 'asymptotic growth over input sizes: bounded symbolic execution cannot observe doubling and an unbounded cost argument is proof-assistant work; the anchored look-ahead mechanisms are decided as one-step invariants under C09/C18',
}
PENDING = 'check not built yet at this revision (planned: see DESIGN.md section 4)'

# round 4 (DESIGN.md section 8): what the cells additionally quantify over
EXTRA = {
 'C01': ' Import machinery reached by name (importlib.import_module, find_spec / pkgutil loaders on dotted names) is recorded as well.',
 'C03': ' The same soups are composed through a loader class with path resolvers of every path-element form registered.',
 'C04': ' The stand-in modules also hold a live generator object and an iterator object (naming them must return them untouched: known finding K12); import machinery reached by name is recorded.',
 'C05': ' Multi-document cells: tagged first roots, %TAG handles rebound from one document to the next.',
 'C07': ' mixed/* cells: one free character (all code points) between pieces of other character classes, as text and UTF-8 byte streams with symbolic read sizes.',
 'C08': " float-repr/* cells run represent_float on every shape of repr(float) with free digits; the engine's regex model is corrected for '$' before a final line feed (M13, decided by the model-dollar cell); the E2 translator handles re.IGNORECASE.",
 'C09': ' The token API is also driven by get_token() alone and by peek_token() + get_token(); the sequences must equal scan().',
 'C12': ' Event level: %TAG on the first and / or second document, roots tagged under the declared prefix, tags compared.',
 'C13': ' Node kinds include a scalar whose constructor returns an object with identity (datetime.date); sibling shapes include instances used as dict keys and set members.',
 'C14': ' Merge cells include equal keys in different spellings (16 / 0x10 / 020) between the merging and the merged mapping.',
 'C15': ' tag-char/* cells: one free character (every Unicode scalar value) in local / verbatim / handle-suffix tags and in a %TAG prefix.',
 'C16': ' same-in-any-process: dump under one option set, then under another, compared with the second on a pristine library state.',
 'C17': ' Shapes include dict / list subclasses whose __setitem__ / extend keep derived data and whose __reduce__ returns dictitems / listitems, and a dict keyed by an instance.',
 'C18': ' long-token/* cells: one unbroken token of 5000-17000 characters (70000 in the thorough tier) in five token kinds.',
 'C19': ' Global state is compared right after the failed call, and the same objects, modified after the failure, are dumped again.',
}
for _pid, _t in EXTRA.items():
    C[_pid]['text'] += _t
C['C04']['note'] += ' Known finding K12 (a generator object named by python/name is advanced and drained).'

props = [json.loads(l) for l in open(os.path.join(HERE, 'properties.jsonl'))]
checks = []
na = []
for p in props:
    pid = p['id']
    if pid in C and os.path.exists(os.path.join(HERE, 'harness', pid.lower() + '.py')):
        c = C[pid]
        checks.append({
            'property_id': pid,
            'quick_cmd': './check %s --tier quick' % pid,
            'thorough_cmd': './check %s --tier thorough' % pid,
            'evidence_file': 'evidence/%s.json' % pid,
            'replay_cmd_template': './check %s --replay {path}' % pid,
            'engine': 'symex',
            'level_claimed': {'category': 'model_checking', 'text': c['text'], 'design_ref': c['ref']},
            'level_note': c['note'],
            'technique': c['technique'],
        })
    else:
        na.append({'property_id': pid, 'reason': NA.get(pid, PENDING)})
M = {
 'version': 1,
 'setup_cmd': './setup.sh',
 'hooks': {'guard': 'YAML_PYYAML_VERIF',
           'enable': 'none needed: all stubs and models live on the engine side (DESIGN.md 2.3); /repo carries no hook code',
           'baseline_off_cmd': 'cd /repo && /venv/bin/python -m pytest -ra -q -p no:cacheprovider --timeout=900 --continue-on-collection-errors',
           'source_commits': [], 'add_only': True},
 'engines': [
  {'name': 'symex', 'path': 'symex/', 'serves_properties': [c['property_id'] for c in checks],
   'kind_free_text': 'bounded symbolic execution of the real /repo/lib/yaml modules with CrossHair 0.0.110 + z3 5.1 (one SMT query per branch, path tree closed per cell), engine-side models of C builtins, concrete replay of every counterexample'},
  {'name': 'smt', 'path': 'smt/', 'serves_properties': ['C08', 'C03'],
   'kind_free_text': 'direct z3 queries over regular languages translated from the live compiled patterns of /repo (unbounded string length): language equality / disjointness / inclusion (C08), ambiguity of unbounded repetitions = termination of the matcher (C03); cvc5 second opinion on every unsat'}],
 'checks': checks,
 'notes': 'Exit codes of ./check: 0 held on everything explored (inconclusive cells are listed in the evidence), 1 VIOLATION, 2 fault of the machinery. Fixes made to /repo: see known_findings.json "lines".',
 'not_applicable': na,
}
json.dump(M, open(os.path.join(HERE, 'MANIFEST.json'), 'w'), indent=1)
print('claimed:', [c['property_id'] for c in checks])
print('not claimed:', [n['property_id'] for n in na])
