#!/bin/bash
# tools/seedtest2.sh <property> <label> [tier] [extra ./check args...]
#   like seedtest.sh but works on a scratch worktree of /repo (VERIF_REPO), so /repo itself is never touched
id=$1; lab=$2; tier=${3:-quick}; shift; shift; shift; EXTRA="$*"
src=${SEED_SRC:-/tmp/seed}/$id/seed_out
dst=/verif/seeded/$id-$lab
wt=/tmp/seedrepo_${id}_${lab}
git -C /repo worktree add -q --detach $wt HEAD || exit 2
cp /repo/lib/yaml/_yaml*.so $wt/lib/yaml/
trap 'git -C /repo worktree remove --force '$wt'; find /verif/replays -name "*.py" -newer '$wt'.stamp -delete 2>/dev/null; rm -f '$wt'.stamp; rm -rf '$wt'.evidence' EXIT
touch $wt.stamp
demo_clean=$(PYTHONPATH=$wt/lib /venv/bin/python $src/$lab.demo.py >/dev/null 2>&1; echo $?)
git -C $wt apply $src/$lab.patch.diff || { echo "$id-$lab patch does not apply"; exit 2; }
tests=$(cd $wt && PYTHONPATH=$wt/lib timeout 900 /venv/bin/python -m pytest -q -p no:cacheprovider 2>&1 | tail -1)
demo_mut=$(PYTHONPATH=$wt/lib /venv/bin/python $src/$lab.demo.py >/dev/null 2>&1; echo $?)
cd /verif
VERIF_REPO=$wt ./check $id --tier $tier "$@" > /tmp/seedtest_${id}_${lab}.log 2>&1
rc=$?
viol=$(grep -c '^VIOLATION' /tmp/seedtest_${id}_${lab}.log)
first=$(grep -m1 'violated in' /tmp/seedtest_${id}_${lab}.log)
herr=$(grep -m1 '^HARNESS-ERROR' /tmp/seedtest_${id}_${lab}.log | cut -c1-300)
echo "$id-$lab tests=[$tests] demo_clean=$demo_clean demo_mutated=$demo_mut check_rc=$rc violations=$viol $first $herr"
mkdir -p $dst
cp $src/$lab.patch.diff $dst/patch.diff; cp $src/$lab.demo.py $dst/demo.py; cp $src/$lab.notes.md $dst/notes.md 2>/dev/null
python3 - <<PY
import json
json.dump({"property": "$id", "label": "$lab", "tests_with_change": """$tests""", "demo_exit_clean": $demo_clean, "demo_exit_with_change": $demo_mut,
           "check_tier": "$tier", "check_exit": $rc, "violation_lines": $viol, "first_violation": """$first""".strip(),
           "ran": "scratch worktree of /repo with patch.diff applied; pytest (existing suite); demo.py; VERIF_REPO=<worktree> ./check $id --tier $tier $EXTRA; worktree removed"},
          open("$dst/meta.json", "w"), indent=1)
PY
