#!/bin/bash
# tools/seedtest.sh <property> <label> [tier] [extra ./check args...]
#   applies /tmp/seed/<property>/seed_out/<label>.patch.diff to /repo, confirms that the
#   existing suite still passes and that the demo fails with / passes without the change,
#   runs the check, and ALWAYS restores /repo.  Keeps the change under /verif/seeded/.
id=$1; lab=$2; tier=${3:-quick}; shift; shift; shift
src=/tmp/seed/$id/seed_out
dst=/verif/seeded/$id-$lab
cd /repo || exit 2
if [ -n "$(git status --porcelain --untracked-files=no)" ]; then echo "/repo not clean"; exit 2; fi
demo_clean=$(PYTHONPATH=/repo/lib /venv/bin/python $src/$lab.demo.py >/dev/null 2>&1; echo $?)
git apply $src/$lab.patch.diff || { echo "patch does not apply"; exit 2; }
trap 'git -C /repo checkout -- . ; find /verif/replays -name "*.py" -delete' EXIT
tests=$(timeout 900 /venv/bin/python -m pytest -q -p no:cacheprovider 2>&1 | tail -1)
demo_mut=$(PYTHONPATH=/repo/lib /venv/bin/python $src/$lab.demo.py >/dev/null 2>&1; echo $?)
cd /verif
./check $id --tier $tier "$@" > /tmp/seedtest_${id}_${lab}.log 2>&1
rc=$?
viol=$(grep -c '^VIOLATION' /tmp/seedtest_${id}_${lab}.log)
first=$(grep -m1 'violated in' /tmp/seedtest_${id}_${lab}.log)
herr=$(grep -m1 '^HARNESS-ERROR' /tmp/seedtest_${id}_${lab}.log | cut -c1-300)
echo "$id-$lab tests=[$tests] demo_clean=$demo_clean demo_mutated=$demo_mut check_rc=$rc violations=$viol $first $herr"
mkdir -p $dst
cp $src/$lab.patch.diff $dst/patch.diff; cp $src/$lab.demo.py $dst/demo.py; cp $src/$lab.notes.md $dst/notes.md 2>/dev/null
python3 - <<PY
import json
json.dump({"property": "$id", "label": "$lab", "tests_with_change": """$tests""", "demo_exit_clean": $demo_clean, "demo_exit_with_change": $demo_mut,
           "check_tier": "$tier", "check_exit": $rc, "violation_lines": $viol, "first_violation": """$first""".strip(),
           "ran": "git -C /repo apply patch.diff; pytest (existing suite); demo.py; ./check $id --tier $tier; git -C /repo checkout -- ."},
          open("$dst/meta.json", "w"), indent=1)
PY
