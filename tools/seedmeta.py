#!/usr/bin/env python3
"""adds to seeded/<id>-<label>/meta.json the fields the seed writer's notes carry: mechanism (first paragraph) and needs
(the paragraph that begins with 'Needs' / 'Trigger'); leaves what seedtest2.sh recorded untouched"""
import glob, json, os, re, sys
HERE = os.path.dirname(os.path.dirname(os.path.abspath(__file__)))
for d in sorted(glob.glob(os.path.join(HERE, 'seeded', sys.argv[1] if len(sys.argv) > 1 else '*'))):
    mp, np_ = os.path.join(d, 'meta.json'), os.path.join(d, 'notes.md')
    if not (os.path.exists(mp) and os.path.exists(np_)):
        continue
    meta = json.load(open(mp))
    paras = [re.sub(r'\s+', ' ', p).strip(' -*') for p in re.split(r'\n\s*\n|\n(?=[-*] )', open(np_).read()) if p.strip()]
    needs = [p for p in paras if re.match(r'(\*\*)?(Needs|Trigger|What it needs)', p, re.I)]
    mech = [p for p in paras if re.match(r'(\*\*)?(Mechanism|Change)', p, re.I)] or [p for p in paras if p.startswith('#')]
    meta['breaks_property'] = meta.get('property')
    if mech:
        meta['mechanism'] = mech[0][:900]
    if needs:
        meta['needs_to_manifest'] = needs[0][:900]
    json.dump(meta, open(mp, 'w'), indent=1)
    print(os.path.basename(d), 'mechanism' in meta, 'needs_to_manifest' in meta)
