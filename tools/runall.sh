#!/bin/bash
# runs every claimed check of MANIFEST.json (tier $1, default quick) sequentially; prints a summary
cd "$(dirname "$0")/.."
tier=${1:-quick}
for id in $(python3 -c "import json; print(' '.join(c['property_id'] for c in json.load(open('MANIFEST.json'))['checks']))"); do
  t0=$(date +%s)
  ./check $id --tier $tier > /tmp/verif_runall_$id.log 2>&1
  rc=$?
  echo "$id rc=$rc $(( $(date +%s) - t0 ))s $(grep '^== '$id':' /tmp/verif_runall_$id.log | tail -1)"
  grep -E "^(VIOLATION|HARNESS-ERROR|INCONCLUSIVE)" /tmp/verif_runall_$id.log | head -5
done
