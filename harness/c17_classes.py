"""Class family for C17: one class per reduction shape of the copy/pickle protocol.
(importable by dotted name: yaml.unsafe_load and pickle both resolve harness.c17_classes.X)"""
import collections
import enum


class Plain(object):
    """instance dictionary"""


class Slots(object):
    __slots__ = ('p', 'q')


class SlotsSub(Slots):
    """subclass without __slots__ of a slotted class: the instance has slots *and* a __dict__; with an empty __dict__
    copyreg's state is the pair (None, {slot: value})"""


class SlotsAndDict(object):
    __slots__ = ('p', '__dict__')


class State(object):
    """__getstate__ / __setstate__ with a state that is not the instance dict"""
    def __init__(self):
        self.inner = {}

    def __getstate__(self):
        return {'wrapped': self.inner}

    def __setstate__(self, state):
        self.inner = state['wrapped']


class NewArgs(object):
    """__getnewargs__: arguments go to __new__"""
    def __new__(cls, tag='default'):
        self = object.__new__(cls)
        self.tag = tag
        return self

    def __getnewargs__(self):
        return (self.tag,)


class Reduce(object):
    """__reduce__ with a callable, arguments and state"""
    def __init__(self, n=0):
        self.n = n
        self.extra = None

    def __reduce__(self):
        return (Reduce, (self.n,), {'extra': self.extra})


class ReduceNoArgs(object):
    """__reduce__ through an ordinary callable with empty args: __init__ must run on load"""
    def __init__(self):
        self.transient = 'set by __init__'
        self.kept = None

    def __reduce__(self):
        return (ReduceNoArgs, (), {'kept': self.kept})


class StatePair(object):
    """__getstate__ returns a 2-tuple, __setstate__ takes it back (a tuple state with a custom __setstate__)"""
    def __init__(self):
        self.first = None
        self.second = None

    def __getstate__(self):
        return (self.first, self.second)

    def __setstate__(self, state):
        self.first, self.second = state


class SlotsState(object):
    """__slots__ with a hand-written __setstate__ that receives copyreg's (None, {slot: value}) pair"""
    __slots__ = ('u', 'v')

    def __setstate__(self, state):
        d, slots = state
        for k, val in slots.items():
            setattr(self, k, val)


class ListSub(list):
    """list subclass with an attribute: state + listitems"""


class DictSub(dict):
    """dict subclass with an attribute: state + dictitems"""


class DictHook(dict):
    """dict subclass whose __setitem__ keeps derived data and whose __reduce__ hands the items over as dictitems (no state):
    the items must be assigned one by one through __setitem__, as pickle's SETITEMS does"""
    def __init__(self):
        dict.__init__(self)
        self.keys_set = []

    def __setitem__(self, k, v):
        dict.__setitem__(self, k, v)
        self.keys_set = sorted(self.keys_set + [k])      # derived data, independent of the order of assignment

    def __reduce__(self):
        return (DictHook, (), None, None, iter(list(self.items())))


class ListHook(list):
    """list subclass whose extend() keeps derived data and whose __reduce__ hands the items over as listitems (no state)"""
    def __init__(self):
        list.__init__(self)
        self.taken = 0

    def extend(self, items):
        items = list(items)
        list.extend(self, items)
        self.taken += len(items)

    def __reduce__(self):
        return (ListHook, (), None, iter(list(self)))


class Color(enum.Enum):
    RED = 1
    BLUE = 2


Point = collections.namedtuple('Point', 'x y')


def func(x):
    return x
