"""C16 - dumping is deterministic and stable (Py leg)."""
import datetime
import re

import yaml
from symex.hlib import Job, reach, fail, exc_sig, not_a_finding, pick, untraced, restore_library_state, ensure_library_snapshot
from harness.emitlib import Sink, STYLES, FLOWS

P = 'C16'
ENCODED = ['BaseRepresenter.represent_mapping (sorting)', 'SafeRepresenter.represent_dict / represent_set / represent_list', 'Serializer.anchor_node / generate_anchor / serialize_node',
           'BaseConstructor.construct_mapping (order on load)', 'BaseConstructor.construct_object (node -> object cache: aliased scalars)',
           'through yaml.dump / safe_dump / safe_load']
BOUNDS = {'quick': 'dicts and sets of <=3 keys from 6 key pools (ints, strs, int/float mix, bool/int mix, negative floats, dates) built in every one of the 6 insertion orders '
                   '(the iteration order of a set is an explicit permutation); sort_keys on/off; nesting as list item / dict value; 3 flow styles; fixed point over a '
                   '24-value table (shared dates, shared and recursive containers, look-alike strings) x 5 styles x 3 flow styles x canonical; anchor names over graphs of 3 slots',
          'thorough': '4 keys (24 orders), fixed point with width/indent/allow_unicode'}
OUTSIDE = 'separate interpreters with different PYTHONHASHSEED are not run: hash randomisation can only change iteration order, which is quantified over explicitly'
ASSUMPTIONS = ['M6: the iteration order of a set is modelled by an ordered container registered with SafeRepresenter.represent_set on a private Dumper subclass']

PERMS3 = [(0, 1, 2), (0, 2, 1), (1, 0, 2), (1, 2, 0), (2, 0, 1), (2, 1, 0)]
POOLS = [[1, 2, 3], ['b', 'a', 'c'], [1, 2.5, 4], [True, 0, 2], [-1.5, -0.5, 1e3], [datetime.date(2001, 1, 2), datetime.date(2000, 12, 31), datetime.date(2001, 1, 1)],
         ['10', '9', 'a b'], [(1, 2), (1, 1), (0, 5)]]


class OrderedSetLike(list):
    """a set whose iteration order is chosen by the harness"""


class _D(yaml.SafeDumper):
    pass


_D.add_representer(OrderedSetLike, yaml.representer.SafeRepresenter.represent_set)


def _build(kind, keys, perm, n):
    order = [keys[i] for i in perm if i < n]
    if kind == 0:
        d = {}
        for k in order:
            d[k] = 'v%s' % (keys.index(k),)
        return d
    return OrderedSetLike(order)


def _wrap(w, x):
    return x if w == 0 else [x, 'z'] if w == 1 else {'outer': x}


def order_independent(kind: int, pool: int, n: int, p1: int, p2: int, wrap: int, flow_i: int) -> str:
    keys = pick(pool, POOLS)
    a = _wrap(wrap, _build(kind, keys, pick(p1, PERMS3), n))
    b = _wrap(wrap, _build(kind, keys, pick(p2, PERMS3), n))
    try:
        ta = yaml.dump(a, Dumper=_D, sort_keys=True, default_flow_style=pick(flow_i, FLOWS))
        tb = yaml.dump(b, Dumper=_D, sort_keys=True, default_flow_style=pick(flow_i, FLOWS))
    except Exception as e:
        not_a_finding(e)
        return fail(P, exc_sig(e), pool=pool)
    reach()
    if ta != tb:
        return fail(P, 'ORDER-DEPENDENT sort_keys output depends on the insertion / iteration order', pool=pool, kind=kind)
    return 'ok'


def order_preserved(pool: int, n: int, p1: int, wrap: int, flow_i: int) -> str:
    """sort_keys off: output order is insertion order; load gives document order"""
    keys = pick(pool, POOLS[:5] + POOLS[6:7])
    perm = pick(p1, PERMS3)
    d = _build(0, keys, perm, n)
    try:
        text = yaml.safe_dump(_wrap(wrap, d), sort_keys=False, default_flow_style=pick(flow_i, FLOWS))
        back = yaml.safe_load(text)
    except Exception as e:
        not_a_finding(e)
        return fail(P, exc_sig(e), pool=pool)
    reach()
    got = back if wrap == 0 else back[0] if wrap == 1 else back['outer']
    if list(got.keys()) != list(d.keys()) or list(got.values()) != list(d.values()):
        return fail(P, 'ORDER-LOST insertion order not preserved through dump(sort_keys=False) / load', pool=pool)
    return 'ok'


def _table():
    ts = datetime.datetime(2001, 12, 14, 21, 59, 43, 100000)
    dt = datetime.date(2002, 12, 14)
    shared = ['s']
    rec = []
    rec.append(rec)
    recd = {}
    recd['self'] = recd
    return [None, True, 1, -0.0, 1.5e300, float('inf'), float('nan'), '', 'yes', '1:30', '~', 'multi\nline\n', ' lead', 'é', b'\x00\xff',
            {'created': ts, 'updated': ts}, [dt, dt, dt], [shared, shared, {'k': shared}], rec, recd, {1, 2, 3}, {'b': [1, {'a': None}], 'a': ()},
            [[], {}, set()], {'k': 'v' * 90}]


def fixed_point(k: int, style_i: int, flow_i: int, canonical: bool, sort_keys: bool) -> str:
    x = pick(k, _table())
    opts = dict(default_style=pick(style_i, STYLES), default_flow_style=pick(flow_i, FLOWS), canonical=canonical, sort_keys=sort_keys)
    try:
        t1 = yaml.safe_dump(x, **opts)
        y = yaml.safe_load(t1)
        t2 = yaml.safe_dump(y, **opts)
        t1b = yaml.safe_dump(x, **opts)
    except yaml.YAMLError as e:
        return fail(P, 'REJECTED safe_load rejects what safe_dump wrote', k=k)
    except Exception as e:
        not_a_finding(e)
        return fail(P, exc_sig(e), k=k)
    reach()
    if t1 != t1b:
        return fail(P, 'NON-DETERMINISTIC two dumps of the same value differ', k=k)
    if t1 != t2:
        return fail(P, 'FIXED-POINT dump(load(dump(x))) differs from dump(x)', k=k)
    return 'ok'


OPTSETS = [dict(), dict(allow_unicode=True), dict(default_style='"'), dict(default_flow_style=True), dict(canonical=True), dict(width=10, indent=4),
           dict(sort_keys=False), dict(default_style='|', allow_unicode=True), dict(explicit_start=True, version=(1, 1)), dict(line_break='\r\n', allow_unicode=True)]
HTABLE = ['caf\xe9', {'\xe9': ['na\xefve', '\u20ac 5']}, 'x' * 30 + ' ' + 'y' * 30, {'b': 1, 'a': [True, None]}, ['multi\nline\n', ' lead'], {'\U0001f600': '\x85'}]


def same_in_any_process(k: int, a: int, b: int, load_between: bool) -> str:
    """the text written for a value under an option set does not depend on what the process dumped before: the value is first
    dumped under option set a (and read back), then under option set b; the latter must be the text a pristine library writes
    (the yaml package's module- and class-level containers are put back to their import-time contents in between)"""
    x = pick(k, HTABLE)
    oa, ob = pick(a, OPTSETS), pick(b, OPTSETS)
    with untraced():
        ensure_library_snapshot()       # (concrete replay: the interpreter is fresh, this is the import-time state)
    try:
        first = yaml.safe_dump(x, **oa)
        if load_between:
            yaml.safe_load(first)
        got = yaml.safe_dump(x, **ob)
        with untraced():
            restore_library_state()
        want = yaml.safe_dump(x, **ob)
    except Exception as e:
        not_a_finding(e)
        return fail(P, exc_sig(e), k=k)
    reach()
    if got != want:
        return fail(P, 'HISTORY the text dumped for a value depends on an earlier dump in the same process', k=k, a=a, b=b)
    return 'ok'


def anchors(k0: int, k1: int, k2: int, a0: int, a1: int, a2: int, b0: int, b1: int, b2: int) -> str:
    """anchor names depend on the document alone (id001..idN per document, same graph -> same names)"""
    kinds, A, B = [k0, k1, k2], [a0, a1, a2], [b0, b1, b2]

    def build():
        objs = [[] if kinds[i] == 0 else {} for i in range(3)]

        def ptr(p):
            for i in range(3):
                if p == i:
                    return objs[i]
            return 'leaf'
        for i in range(3):
            if kinds[i] == 0:
                objs[i].append(ptr(A[i]))
                objs[i].append(ptr(B[i]))
            else:
                objs[i]['x'] = ptr(A[i])
                objs[i]['y'] = ptr(B[i])
        return objs[0]
    try:
        t1 = yaml.safe_dump_all([build(), build()])
        junk = [object() for _ in range(3)]          # different addresses for the second build
        t2 = yaml.safe_dump_all([build(), build()])
    except Exception as e:
        not_a_finding(e)
        return fail(P, exc_sig(e))
    reach()
    if t1 != t2:
        return fail(P, 'ANCHORS output depends on object identities / addresses')
    docs = re.split(r'(?m)^---(?: |$)', t1)
    for d in docs:
        # ids are handed out when a node is met for the second time, so their order in the text is
        # not first-visit order; what the property fixes is that they are a function of the document:
        # the same graph gives the same names (checked above) and the numbering restarts per document
        names = sorted(re.findall(r'&(id\d+)', d))
        want = ['id%03d' % (i + 1) for i in range(len(names))]
        if names != want:
            return fail(P, 'ANCHORS names are not id001..idN within each document')
    return 'ok'


def jobs(tier):
    q = tier == 'quick'
    js = []
    for pool in range(len(POOLS)):
        js.append(Job('order-independent/pool%d' % pool, order_independent,
                      [lambda kind, pool, n, p1, p2, wrap, flow_i, _p=pool: pool == _p and 0 <= kind <= 1 and 2 <= n <= 3 and 0 <= p1 <= 5 and 0 <= p2 <= 5 and
                       0 <= wrap <= 2 and (flow_i == 2 if q else 0 <= flow_i <= 2)],
                      budget=200, bounds='key pool %d: dict and set of 2..3 keys, every pair of insertion orders, 3 nestings' % pool))
    js.append(Job('order-preserved', order_preserved, [lambda pool, n, p1, wrap, flow_i: 0 <= pool <= 5 and 2 <= n <= 3 and 0 <= p1 <= 5 and 0 <= wrap <= 2 and 0 <= flow_i <= 2],
                  budget=200, bounds='6 key pools x 6 insertion orders x 3 nestings x 3 flow styles, sort_keys=False'))
    NT = len(_table())
    for st in range(5):
        js.append(Job('fixed-point/style%d' % st, fixed_point,
                      [lambda k, style_i, flow_i, canonical, sort_keys, _s=st: style_i == _s and 0 <= k < NT and 0 <= flow_i <= 2],
                      budget=250, bounds='%d values x style %r x 3 flow styles x canonical x sort_keys' % (NT, STYLES[st])))
    js.append(Job('same-in-any-process', same_in_any_process,
                  [lambda k, a, b, load_between: 0 <= k < len(HTABLE) and 0 <= a < len(OPTSETS) and 0 <= b < len(OPTSETS)], budget=250,
                  bounds='%d values (non-ASCII, long, nested) x every ordered pair of %d option sets: dump under the first, then under the second, '
                         'compared with the second on a pristine library' % (len(HTABLE), len(OPTSETS))))
    for a in range(4):
        for k in range(2):
            js.append(Job('anchors/k0=%d/a0=%d' % (k, a), anchors,
                          [lambda k0, k1, k2, a0, a1, a2, b0, b1, b2, _a=a, _k=k: k0 == _k and 0 <= k1 <= 1 and 0 <= k2 <= 1 and a0 == _a and 0 <= a1 <= 3 and
                           0 <= a2 <= 3 and 0 <= b0 <= 3 and (b1 == 3 if q else 0 <= b1 <= 3) and (b2 == 3 if q else 0 <= b2 <= 3)],
                          budget=250, bounds='list/dict graphs over 3 slots with arbitrary child pointers (root kind %d, first pointer %d), dumped twice as 2-document streams' % (k, a)))
    return js
