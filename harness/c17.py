"""C17 - Python objects survive dump / unsafe load as they survive pickle (Py leg)."""
import pickle
import types
import collections

import yaml
from symex.hlib import Job, reach, fail, exc_sig, not_a_finding, pick, untraced
from harness import c17_classes as K

P = 'C17'
ENCODED = ['Representer.represent_object / represent_name / represent_module / represent_tuple / represent_complex / represent_ordered_dict',
           'FullConstructor.construct_python_object / construct_python_object_apply / construct_python_object_new / make_python_instance / '
           'set_python_instance_state / construct_python_name / construct_python_module / construct_python_tuple / construct_python_complex',
           'UnsafeConstructor overrides', 'through yaml.dump(obj) (Dumper) and yaml.unsafe_load / yaml.full_load (text level: emitter, scanner, parser, composer included)']
BOUNDS = {'quick': 'object graphs over 2 slots; each slot one of 22 shapes (a subclass without __slots__ of a slotted class, dict / list subclasses whose __setitem__ / extend keep derived data and whose __reduce__ returns dictitems / listitems, a dict with an instance as key, instance dict, __slots__, __slots__+__dict__, __getstate__/__setstate__ with dict and with tuple state, __slots__ with __setstate__, __getnewargs__, '
                   '__reduce__ with args+state, __reduce__ without args, list / dict subclasses with attributes, list, dict, tuple, namedtuple, OrderedDict, set, leaf table incl. '
                   'enum / complex / class / function / module) with two child pointers each (any slot, itself included, or a leaf): sharing, nesting of shapes, cycles',
          'thorough': '3 slots'}
OUTSIDE = "complex/float text formatting ('%r' of floats); CDumper / CUnsafeLoader; dumper options (C02/C05 cover the text legs)"
ASSUMPTIONS = ['oracle: pickle.loads(pickle.dumps(obj, 2)), compared by type-strict graph bisimulation with identity classes (pickle is C: it runs on the concrete graph the solver variables selected)',
               'a ConstructorError is accepted only when the graph has a cycle that passes through something other than a list, a dict or a plain instance dictionary']

LEAVES = [1, 'txt', None, 2.5, True, K.Color.RED, 3 + 4j, K.Plain, K.func, collections, b'by', K.Point(1, 'p'), (), (1, 'two'), K.Color, len]
KINDS = ['Plain', 'Slots', 'SlotsAndDict', 'State', 'NewArgs', 'Reduce', 'ReduceNoArgs', 'ListSub', 'DictSub', 'list', 'dict', 'tuple', 'Point', 'OrderedDict', 'set', 'leaf',
         'StatePair', 'SlotsState', 'KeyDict', 'DictHook', 'ListHook', 'SlotsSub']
# KeyDict: a dict whose first child is its *key* (when hashable: instances hash by identity) and whose second child is that key's value
MUTABLE_PLAIN = ('Plain', 'list', 'dict', 'KeyDict')            # a cycle through these only must be preserved
IMMUTABLE = ('tuple', 'Point', 'NewArgs', 'set', 'leaf')


def build(ns, kinds, A, B, leaf_i):
    """two phases: mutable shells first, then immutables in decreasing slot order, then fill"""
    for n_ in (1, 2, 3, 4):
        if ns == n_:
            ns = n_          # a concrete int from here on
    kind = [pick(kinds[i], KINDS) for i in range(ns)]
    info = []
    for i in range(ns):
        def ptr(p, i=i):
            for j in range(ns):
                if p == j:
                    return j
            return None
        info.append((kind[i], ptr(A[i]), ptr(B[i])))
    objs = [None] * ns
    leaf = pick(leaf_i, LEAVES)
    for i in range(ns):
        k = kind[i]
        if k in ('Plain', 'Slots', 'SlotsAndDict', 'State', 'ReduceNoArgs', 'StatePair', 'SlotsState', 'DictHook', 'ListHook', 'SlotsSub'):
            objs[i] = getattr(K, k)()
        elif k == 'Reduce':
            objs[i] = K.Reduce(i)
        elif k == 'ListSub':
            objs[i] = K.ListSub()
        elif k == 'DictSub':
            objs[i] = K.DictSub()
        elif k == 'list':
            objs[i] = []
        elif k == 'dict' or k == 'KeyDict':
            objs[i] = {}
        elif k == 'OrderedDict':
            objs[i] = collections.OrderedDict()

    edges = []

    def child(j, i):
        """child j of slot i (records the edge): an immutable slot can only hold already built objects"""
        if j is None or objs[j] is None:
            return leaf
        edges.append((i, j))
        return objs[j]
    for i in range(ns - 1, -1, -1):
        k, a, b = info[i]
        if k == 'tuple':
            objs[i] = (child(a, i), child(b, i))
        elif k == 'Point':
            objs[i] = K.Point(child(a, i), child(b, i))
        elif k == 'NewArgs':
            objs[i] = K.NewArgs('t%d' % i)
        elif k == 'set':
            objs[i] = {i, 'm'}
        elif k == 'leaf':
            objs[i] = leaf
    for i in range(ns):
        k, a, b = info[i]
        o = objs[i]
        if k == 'Plain':
            o.x, o.y = child(a, i), child(b, i)
        elif k == 'ReduceNoArgs':
            o.kept = child(a, i)
        elif k == 'Slots':
            o.p, o.q = child(a, i), child(b, i)
        elif k == 'SlotsSub':
            o.p = child(a, i)
            if b is not None:
                o.extra = child(b, i)      # with b absent the instance dictionary stays empty: state (None, {slots})
        elif k == 'StatePair':
            o.first, o.second = child(a, i), child(b, i)
        elif k == 'SlotsState':
            o.u, o.v = child(a, i), child(b, i)
        elif k == 'SlotsAndDict':
            o.p = child(a, i)
            o.dyn = child(b, i)
        elif k == 'State':
            o.inner = {'a': child(a, i), 'b': child(b, i)}
        elif k == 'NewArgs':
            o.payload = child(a, i)
        elif k == 'Reduce':
            o.extra = child(a, i)
        elif k == 'ListSub':
            o.append(child(a, i))
            o.note = child(b, i)
        elif k == 'DictSub':
            o['k'] = child(a, i)
            o.note = child(b, i)
        elif k == 'list':
            o.append(child(a, i))
            o.append(child(b, i))
        elif k in ('dict', 'OrderedDict'):
            o['k1'] = child(a, i)
            o['k2'] = child(b, i)
        elif k == 'DictHook':
            o['j'] = child(a, i)
            o['k'] = child(b, i)
        elif k == 'ListHook':
            o.extend([child(a, i), child(b, i)])
        elif k == 'KeyDict':
            cand = objs[a] if a is not None else None
            try:
                hash(cand)
                key = child(a, i) if cand is not None else 'key'
            except TypeError:
                key = 'key'
            o[key] = child(b, i)
    return objs[0], info, edges


DEEP_KINDS = ('Slots', 'SlotsAndDict', 'State', 'NewArgs', 'Reduce', 'ReduceNoArgs', 'ListSub', 'DictSub', 'Point', 'OrderedDict', 'StatePair', 'SlotsState', 'DictHook', 'ListHook', 'SlotsSub')


def _closure(info, edges):
    n = len(info)
    r = [[False] * n for _ in range(n)]
    for i, j in edges:
        r[i][j] = True
    for m in range(n):
        for i in range(n):
            for j in range(n):
                if r[i][m] and r[m][j]:
                    r[i][j] = True
    return r


def cycle_under_deep(info, edges):
    """a cycle (of any kind) some node of which is a descendant of a node whose children are
    constructed deeply (constructor arguments, apply/new state, __setstate__ state)"""
    r = _closure(info, edges)
    n = len(info)
    for c in range(n):
        if r[c][c]:
            for d in range(n):
                if info[d][0] in DEEP_KINDS and r[d][c]:
                    return True
    return False


def hard_cycle(info, edges):
    """is there a cycle with an edge leaving a node that is not a list / dict / plain instance?"""
    reach_ = _closure(info, edges)
    for i, j in edges:
        if info[i][0] not in MUTABLE_PLAIN and (i == j or reach_[j][i]):
            return True
    return False


ATOMS = (int, float, str, bool, type(None), complex, bytes, type, types.FunctionType, types.BuiltinFunctionType, types.ModuleType)


def bisim(x, y, fwd, bwd, depth=0):
    if type(x) is not type(y):
        return False
    if isinstance(x, ATOMS) or isinstance(x, K.Color):
        return x is y or x == y
    if id(x) in fwd or id(y) in bwd:
        return fwd.get(id(x)) == id(y) and bwd.get(id(y)) == id(x)
    fwd[id(x)] = id(y)
    bwd[id(y)] = id(x)
    if depth > 30:
        return True
    if isinstance(x, tuple):
        return len(x) == len(y) and all(bisim(p, q, fwd, bwd, depth + 1) for p, q in zip(x, y))
    if isinstance(x, (set, frozenset)):
        if len(x) == 1 and len(y) == 1:
            # members with identity-based equality (instances) can only be compared structurally
            return bisim(next(iter(x)), next(iter(y)), fwd, bwd, depth + 1)
        return x == y
    if isinstance(x, list):
        if len(x) != len(y) or not all(bisim(p, q, fwd, bwd, depth + 1) for p, q in zip(x, y)):
            return False
    if isinstance(x, dict):
        if len(x) != len(y):
            return False
        # keys pairwise in insertion order (a key may be an instance: identity-based equality), then the values
        for kx, ky in zip(list(x.keys()), list(y.keys())):
            if not bisim(kx, ky, fwd, bwd, depth + 1) or not bisim(x[kx], y[ky], fwd, bwd, depth + 1):
                return False
    dx, dy = getattr(x, '__dict__', None), getattr(y, '__dict__', None)
    if (dx is None) != (dy is None):
        return False
    if dx is not None:
        if sorted(dx) != sorted(dy) or not all(bisim(dx[k], dy[k], fwd, bwd, depth + 1) for k in dx):
            return False
    for s in getattr(type(x), '__slots__', ()):
        if s == '__dict__':
            continue
        hx, hy = hasattr(x, s), hasattr(y, s)
        if hx != hy or (hx and not bisim(getattr(x, s), getattr(y, s), fwd, bwd, depth + 1)):
            return False
    return True


def objects(ns: int, k0: int, k1: int, k2: int, k3: int, a0: int, a1: int, a2: int, a3: int, b0: int, b1: int, b2: int, b3: int, leaf_i: int) -> str:
    root, info, edges = build(ns, [k0, k1, k2, k3], [a0, a1, a2, a3], [b0, b1, b2, b3], leaf_i)
    with untraced():
        hard = hard_cycle(info, edges)
        deep = cycle_under_deep(info, edges)
    try:
        want = pickle.loads(pickle.dumps(root, 2))
    except Exception as e:
        return 'ok'        # not picklable: outside the premise of the property
    try:
        text = yaml.dump(root)
    except Exception as e:
        not_a_finding(e)
        return fail(P, 'dump ' + exc_sig(e), k0=k0)
    try:
        got = yaml.unsafe_load(text)
    except yaml.constructor.ConstructorError:
        reach()
        if hard:
            return 'ok'
        return fail(P, 'REJECTED a graph whose cycles run only through lists, dicts and instance dictionaries', k0=k0, k1=k1, deep=deep)
    except Exception as e:
        not_a_finding(e)
        return fail(P, 'load ' + exc_sig(e), k0=k0, k1=k1)
    reach()
    if not bisim(got, want, {}, {}):
        return fail(P, 'DIFFERS from what pickle protocol 2 rebuilds (types, state, sharing or cycles)', k0=k0, k1=k1)
    # the full loader accepts exactly the tuple / complex / name subset
    safe_kinds = ('list', 'dict', 'tuple', 'set', 'KeyDict')
    leaf = pick(leaf_i, LEAVES)
    only_full = all(k in safe_kinds for k, _, _ in info) and not isinstance(leaf, (K.Color, types.ModuleType, K.Point))
    try:
        yaml.full_load(text)
        if not only_full and any(k not in safe_kinds + ('leaf',) for k, _, _ in info[:1]):
            return fail(P, 'FULL-LOADER accepted an object-construction document', k0=k0)
    except yaml.constructor.ConstructorError:
        if only_full:
            return fail(P, 'FULL-LOADER rejected a document of tuples / complex numbers / names', k0=k0)
    except Exception as e:
        not_a_finding(e)
        return fail(P, 'full_load ' + exc_sig(e), k0=k0)
    return 'ok'


SIB = ['scalar', 'list[prev]', 'dict{k: prev}', 'tuple(prev)', 'Point(prev, 1)', 'OrderedDict(k=prev)', 'State(prev)', 'Reduce(extra=prev)', 'selflist', 'selfdict',
       'list[root]', 'Plain(x=prev)', 'StatePair(prev, prev)', 'dict{Plain(self): prev}', 'set{Plain(self, prev)}', 'ListSub[prev]']


def _sib(kind, prev, root):
    k = pick(kind, SIB)
    if k == 'scalar':
        return 'leaf'
    if k == 'list[prev]':
        return [prev]
    if k == 'dict{k: prev}':
        return {'k': prev}
    if k == 'tuple(prev)':
        return (prev, 1)
    if k == 'Point(prev, 1)':
        return K.Point(prev, 1)
    if k == 'OrderedDict(k=prev)':
        return collections.OrderedDict([('k', prev), ('j', 2)])
    if k == 'State(prev)':
        o = K.State()
        o.inner = {'a': prev}
        return o
    if k == 'Reduce(extra=prev)':
        o = K.Reduce(7)
        o.extra = prev
        return o
    if k == 'selflist':
        l = ['x']
        l.append(l)
        return l
    if k == 'selfdict':
        d = {}
        d['self'] = d
        return d
    if k == 'list[root]':
        return [root]
    if k == 'Plain(x=prev)':
        o = K.Plain()
        o.x = prev
        return o
    if k == 'StatePair(prev, prev)':
        o = K.StatePair()
        o.first = o.second = prev
        return o
    if k == 'dict{Plain(self): prev}':
        o = K.Plain()
        o.x, o.y = o, 1
        return {o: prev}
    if k == 'set{Plain(self, prev)}':
        o = K.Plain()
        o.x, o.y = o, prev
        return {o}
    o = K.ListSub([prev])
    o.note = prev
    return o


def siblings(s0: int, s1: int, s2: int, rootkind: int) -> str:
    return siblings_for(P, s0, s1, s2, rootkind)


def siblings_for(P, s0, s1, s2, rootkind):
    """three siblings under one root, each built from a menu of shapes that use the previous sibling
    (sharing between different shapes; deep and lazy construction interleaved; self-references later
    in the document)"""
    root = [] if rootkind == 0 else {}
    a = _sib(s0, 'first', root)
    b = _sib(s1, a, root)
    c = _sib(s2, b, root)
    if rootkind == 0:
        root.extend([a, b, c])
    else:
        root['a'], root['b'], root['c'] = a, b, c
    kinds = [pick(s0, SIB), pick(s1, SIB), pick(s2, SIB)]
    deep_kinds = ('Point(prev, 1)', 'OrderedDict(k=prev)', 'State(prev)', 'Reduce(extra=prev)', 'StatePair(prev, prev)', 'ListSub[prev]')
    # a cycle below a deeply constructed node is known finding K6; a cycle through such a node is allowed to fail
    cyc = [i for i, k in enumerate(kinds) if k in ('selflist', 'selfdict', 'list[root]')]
    under_deep = any(kinds[j] in deep_kinds for i in cyc for j in range(i + 1, 3)) or \
        ('list[root]' in kinds and any(k in deep_kinds for k in kinds))
    try:
        want = pickle.loads(pickle.dumps(root, 2))
        text = yaml.dump(root)
    except Exception as e:
        not_a_finding(e)
        return fail(P, 'dump ' + exc_sig(e), s0=s0)
    try:
        got = yaml.unsafe_load(text)
    except yaml.constructor.ConstructorError:
        reach()
        return fail(P, 'REJECTED a graph whose cycles run only through lists, dicts and instance dictionaries', s0=s0, deep=under_deep)
    except Exception as e:
        not_a_finding(e)
        return fail(P, 'load ' + exc_sig(e), s0=s0, s1=s1)
    reach()
    if not bisim(got, want, {}, {}):
        return fail(P, 'DIFFERS from what pickle protocol 2 rebuilds (types, state, sharing or cycles)', s0=s0, s1=s1)
    return 'ok'


def jobs(tier):
    q = tier == 'quick'
    NS = 2 if q else 3
    NK = len(KINDS)
    js = []
    for k in [x for x in range(NK) if KINDS[x] != 'leaf']:
        js.append(Job('objects/root=%s' % KINDS[k], objects,
                      [lambda ns, k0, k1, k2, k3, a0, a1, a2, a3, b0, b1, b2, b3, leaf_i, _k=k:
                       ns == NS and k0 == _k and 0 <= k1 < NK and 0 <= k2 < (NK if NS >= 3 else 1) and k3 == 0 and
                       0 <= a0 <= NS and 0 <= a1 <= NS and 0 <= a2 <= (NS if NS >= 3 else 0) and a3 == 0 and
                       0 <= b0 <= NS and (b1 == NS if q else 0 <= b1 <= NS) and 0 <= b2 <= (NS if NS >= 3 else 0) and b3 == 0 and
                       (leaf_i == 0 if q else 0 <= leaf_i <= 1)],
                      budget=250 if q else 1800, exhaust=q,
                      bounds='root shape %s, %d further slot(s) of %d shapes, both child pointers of every slot free (any slot, itself, or a leaf)' % (KINDS[k], NS - 1, NK)))
    NSIB = len(SIB)
    for k in range(NSIB):
        js.append(Job('siblings/first=%s' % SIB[k], siblings,
                      [lambda s0, s1, s2, rootkind, _k=k: s0 == _k and 0 <= s1 < NSIB and 0 <= s2 < NSIB and 0 <= rootkind <= 1],
                      budget=250, bounds='root list/dict with three siblings: first %s, second and third of %d shapes each built on the previous sibling' % (SIB[k], NSIB)))
    js.append(Job('leaves', objects,
                  [lambda ns, k0, k1, k2, k3, a0, a1, a2, a3, b0, b1, b2, b3, leaf_i: ns == 2 and (k0 == 0 or k0 == 9 or k0 == 11 or k0 == 7) and k1 == 15 and k2 == 0 and k3 == 0 and
                   (a0 == 1 or a0 == 2) and a1 == 0 and a2 == 0 and a3 == 0 and (b0 == 1 or b0 == 2) and b1 == 0 and b2 == 0 and b3 == 0 and 0 <= leaf_i < len(LEAVES)],
                  budget=200, bounds='every leaf (%d: enum member, complex, class, function, module, bytes, namedtuple, tuples ...) inside an instance / list / tuple / list subclass' % len(LEAVES)))
    return js
