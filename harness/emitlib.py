"""Shared pieces of the dump/emit harnesses (C02, C05, C12, C15, C16, C19)."""
import yaml
from symex.hlib import pick

STYLES = [None, '"', "'", '|', '>']
FLOWS = [None, True, False]
BREAKS = [None, '\n', '\r', '\r\n']


class Sink:
    """the caller's output stream: collects what is written (text mode)"""
    def __init__(self):
        self.chunks = []

    def write(self, data):
        self.chunks.append(data)

    def getvalue(self):
        return ''.join(self.chunks)


def options(style_i, flow_i, canonical, indent, width, allow_unicode, break_i, estart, eend):
    return dict(default_style=pick(style_i, STYLES), default_flow_style=pick(flow_i, FLOWS), canonical=canonical,
                indent=indent, width=width, allow_unicode=allow_unicode, line_break=pick(break_i, BREAKS),
                explicit_start=estart, explicit_end=eend)


def place(ctx, x):
    """put the value x into a data structure chosen by ctx; returns (document, accessor)"""
    if ctx == 0:
        return x, (lambda d: d)
    if ctx == 1:
        return [x], (lambda d: d[0])
    if ctx == 2:
        return {'k': x}, (lambda d: d['k'])
    if ctx == 3:
        return {x: 'v'}, (lambda d: list(d)[0])
    if ctx == 4:
        return [[x]], (lambda d: d[0][0])
    if ctx == 5:
        return {'k': [x, x]}, (lambda d: d['k'][1])
    if ctx == 6:
        return {'a': {'b': {'c': x}}}, (lambda d: d['a']['b']['c'])
    return [{x: [x]}], (lambda d: d[0][list(d[0])[0]][0])


NCTX = 8


def dump_to_text(doc, Dumper=yaml.SafeDumper, **opts):
    out = Sink()
    yaml.dump(doc, out, Dumper=Dumper, **opts)
    return out.getvalue()
