"""C08 - plain scalars are typed exactly by the YAML 1.1 rules, on load and on dump alike."""
import datetime
import glob
import math
import os
import re
import time

import yaml
import yaml.resolver
import yaml.constructor
from yaml.nodes import ScalarNode
from symex.hlib import Job, reach, fail, exc_sig, not_a_finding, pick, REPO, CONCRETE
from symex import pymodels
from spec import yaml11_types as spec

P = 'C08'
FLOATS_AS_REALS = True
T = spec.T
ENCODED = ['Resolver.yaml_implicit_resolvers (every live pattern and its first-character keys)', 'BaseResolver.resolve',
           'SafeConstructor.construct_yaml_null/bool/int/float/timestamp, timestamp_regexp', 'SafeRepresenter.represent_* (text side, as languages)',
           'Serializer.serialize_node implicit flags, Emitter.choose_scalar_style/process_tag (through safe_dump)']
BOUNDS = {'quick': 'E2 language queries: unbounded string length; E1: resolve+construct for every str len<=2, int/float/timestamp templates with free digits, dump side for every str len<=2',
          'thorough': 'E1 with len<=3 and longer templates'}
OUTSIDE = 'float rounding (sexagesimal floats are compared with a relative tolerance); repr(float)/isoformat shapes are modelled as languages (validated on samples); C loaders reach the same resolve() through libyaml events'
ASSUMPTIONS = ['M12 (ts-fraction cells only): +, -, *, / on floats and int / int round to the nearest binary64 value, ties to even; everywhere else floats are exact rationals',
               'every unsat of z3 is cross-checked by the cvc5 binary on the SMT-LIB2 text of the same query (a disagreement is inconclusive)',
               'oracle: spec/yaml11_types.py (YAML 1.1 type repository restricted to the documented dialect, deviations D1-D4 listed there)',
               'z3 sequence/regex theory; translator validated against re on the repository data scalars and on every witness',
               'M3 int / M3f float models for the E1 cells', 'floats are modelled as exact rationals (z3 Real) under symbolic execution: rounding is outside the claim']

KINDS = spec.ORDER


# ------------------------------------------------------------------ concrete oracle comparison (also the replay target)
def _same_value(kind, got, want):
    if kind == 'float':
        if type(got) is not float:
            return False
        if want != want:
            return got != got
        if want == float('inf') or want == float('-inf') or want == 0.0:
            return got == want
        if not CONCRETE:
            # under symbolic execution floats are exact rationals (model M3f): both sides
            # must denote the same real number; rounding is compared concretely on replay
            return got == want
        return abs(got - want) <= 1e-12 * abs(want)
    if type(got) is not type(want):
        return False
    return got == want


def load_plain(s: str) -> str:
    """Resolve and construct the plain scalar text `s`; compare with the reference."""
    if s[-1:] == '\n':
        # no plain scalar ends in a line feed (the scanner strips trailing breaks); '$' in the resolver patterns would
        # match before it (model M13), which no document can observe
        return 'ok'
    kind = spec.classify(s)
    want_tag = T + kind
    r = yaml.resolver.Resolver()
    got_tag = r.resolve(ScalarNode, s, (True, False))
    if got_tag == T + 'yaml' and (s == '!' or s == '&' or s == '*'):
        # the documentation-only resolver: no plain scalar can consist of '!', '&' or '*'
        return 'ok'
    if got_tag != want_tag:
        return fail(P, 'RESOLVE plain text typed %s, reference says %s' % (got_tag[len(T):], kind), kind=kind, v=s)
    if r.resolve(ScalarNode, s, (False, True)) != T + 'str':
        return 'RESOLVE a non-plain scalar is not a str'
    if kind == 'str' or kind == 'merge' or kind == 'value':
        return 'ok'
    reach()
    loader = yaml.SafeLoader('')
    try:
        got = loader.construct_document(ScalarNode(got_tag, s))
    except yaml.YAMLError:
        return fail(P, 'YAMLERROR for a member of the %s language' % kind, kind=kind, v=s)
    except Exception as e:
        not_a_finding(e)
        return fail(P, exc_sig(e), kind=kind, v=s)
    st, want = spec.value(kind, s)
    if st != 'ok':
        return fail(P, 'VALUE constructed although the rules define none', kind=kind, v=s)
    if not _same_value(kind, got, want):
        return fail(P, 'VALUE %s differs from the reference' % kind, kind=kind, v=s)
    return 'ok'


def overlap(s: str) -> str:
    n = 0
    seen = []
    for lst in yaml.resolver.Resolver.yaml_implicit_resolvers.values():
        for tag, rx in lst:
            if tag not in seen and rx.match(s):
                seen.append(tag)
    return 'ok' if len(seen) <= 1 else 'OVERLAP ' + ','.join(t[len(T):] for t in seen)


def constructor_regexp(s: str) -> str:
    """an implicit timestamp must be matched by the constructor's own pattern"""
    if spec.matches('timestamp', s) and not yaml.constructor.SafeConstructor.timestamp_regexp.match(s):
        return 'TIMESTAMP-REGEXP does not match a resolver timestamp'
    return 'ok'


class _Sink:
    def write(self, data):
        pass


class _Cap(yaml.SafeDumper):
    """SafeDumper whose emitter half only records the events the serializer hands over"""
    def __init__(self):
        yaml.SafeDumper.__init__(self, _Sink())
        self.captured = []

    def emit(self, event):
        self.captured.append(event)


def _scalar_event(value):
    d = _Cap()
    d.open()
    d.represent(value)
    evs = [e for e in d.captured if isinstance(e, yaml.ScalarEvent)]
    return evs[0]


def dump_flags(s: str, ctx: int) -> str:
    """dump side of the classification: a str that the rules type as something else gets
    implicit[0] == False from the serializer, and the emitter then never writes it plain"""
    try:
        ev = _scalar_event(s)
    except Exception as e:
        not_a_finding(e)
        return fail(P, 'dump ' + exc_sig(e), s=s)
    if ev.tag != T + 'str' or ev.value != s:
        return 'DUMP str represented with tag %s' % ev.tag
    if not ev.implicit[1]:
        return 'DUMP a quoted str would need an explicit tag'
    looks = spec.classify(s)
    if looks != 'str' and ev.implicit[0]:
        return 'DUMP look-alike %s flagged as plain-safe' % looks
    em = yaml.emitter.Emitter(_Sink())
    em.event = ev
    em.flow_level = 1 if ctx == 1 else 0
    em.simple_key_context = ctx == 2
    try:
        style = em.choose_scalar_style()
    except Exception as e:
        not_a_finding(e)
        return fail(P, 'choose_scalar_style ' + exc_sig(e), s=s)
    if looks != 'str':
        reach()
        if style == '':
            return 'DUMP look-alike %s would be written plain' % looks
    if style == '' and not ev.implicit[0]:
        return 'DUMP plain style chosen for a scalar whose tag would not be re-derived'
    return 'ok'


def dump_int(n: int) -> str:
    """an int is written as a text the rules read back as the same int"""
    try:
        ev = _scalar_event(n)
    except Exception as e:
        not_a_finding(e)
        return fail(P, 'dump ' + exc_sig(e), n=n)
    reach()
    text = ev.value
    if ev.tag != T + 'int' or not ev.implicit[0]:
        return 'DUMP int not written as a plain implicit int'
    if spec.classify(text) != 'int':
        return 'DUMP int text is not in the int language'
    if spec.int_value(text) != n:
        return 'DUMP int text denotes another value'
    return load_plain(text)


def int_digit_limit(n: int, side: int, sign: int) -> str:
    """decimal integers around the interpreter's limit for int <-> str conversion (4300 digits
    since CPython 3.11): the number of digits is the solver variable"""
    sg = pick(sign, ['', '-', '+'])
    for i in range(4296, 4306):
        if n == i:
            if side == 0:
                return load_plain(sg + '1' * i)
            v = 10 ** (i - 1)
            return dump_int(-v if sign == 1 else v)
    return 'ok'


def dump_consts(k: int) -> str:
    """None / True / False / dates: the written text is in the language of its own type"""
    vals = [None, True, False, datetime.date(2001, 12, 14), datetime.datetime(2001, 12, 14, 21, 59, 43),
            datetime.datetime(2001, 12, 14, 21, 59, 43, 100000, tzinfo=datetime.timezone(datetime.timedelta(hours=-5))),
            datetime.datetime(1, 1, 1, 0, 0, 0, 1), datetime.date(9999, 12, 31), float('inf'), float('-inf'), float('nan'),
            1e17, 1.5e-7, -0.0, 1e300, 123456789.125]
    v = pick(k, vals)
    ev = _scalar_event(v)
    reach()
    if not ev.implicit[0]:
        return 'DUMP value of type %s not written as a plain implicit scalar' % type(v).__name__
    r = load_plain(ev.value)
    if r != 'ok':
        return r
    back = yaml.SafeLoader('').construct_document(ScalarNode(ev.tag, ev.value))
    if type(back) is not type(v) or not (back == v or (v != v and back != back)):
        return 'DUMP value does not read back'
    return 'ok'


class _ReprFloat:
    """stands for a finite non-zero float whose repr() is a solver-chosen member of the language CPython's repr(float) writes
    (repr itself is C code on a machine float: its *shape* is the input here, the value is the text's)"""
    __hash__ = object.__hash__

    def __init__(self, text):
        self.text = text

    def __repr__(self):
        return self.text

    def __eq__(self, other):
        return False

    def __ne__(self, other):
        return False


def float_repr(form: int, d: str, sign: int) -> str:
    """represent_float on every shape repr(float) produces (fixed notation, exponent with and without a fraction,
    positive and negative exponents) with free digits: the written text is in the float language and denotes the
    value of the repr text"""
    sg = pick(sign, ['', '-'])
    if form == 0:
        text = sg + d[:1] + '.' + d[1:]                                           # 1.5, 0.01
    elif form == 1:
        text = sg + d[:1] + 'e+1' + d[1:]                                         # 1e+16
    elif form == 2:
        text = sg + d[:1] + '.' + d[1:2] + 'e+' + ('1' + d[2:] if len(d) > 2 else '16')   # 1.5e+16
    elif form == 3:
        text = sg + d[:1] + 'e-0' + d[1:]                                         # 1e-05
    else:
        text = sg + d[:1] + '.' + d[1:2] + 'e-' + ('0' + d[2:] if len(d) > 2 else '07')   # 1.5e-07
    rep = yaml.representer.SafeRepresenter()
    try:
        node = rep.represent_float(_ReprFloat(text))
    except Exception as ex:
        not_a_finding(ex)
        return fail(P, 'dump ' + exc_sig(ex), v=text)
    reach()
    if node.tag != T + 'float' or node.style is not None:
        return 'DUMP float not written as a plain float scalar'
    out = node.value
    if yaml.resolver.Resolver().resolve(ScalarNode, out, (True, False)) != T + 'float':
        return 'DUMP-FLOAT text written for repr %r does not read back as a float' % (text,)
    r = load_plain(out)
    if r != 'ok':
        return 'DUMP-FLOAT ' + r
    back = yaml.SafeLoader('').construct_document(ScalarNode(node.tag, out))
    if not _same_value('float', back, float(text)):
        return 'DUMP-FLOAT text written for repr %r denotes another value' % (text,)
    return 'ok'


def dollar_model(s: str) -> str:
    """model M13 against a hand-written reference: '$' without re.MULTILINE matches at the end and just before a final line feed"""
    got = bool(re.compile(r'^[0-9]+$').match(s))
    body = s[:-1] if s[-1:] == '\n' else s
    want = len(body) >= 1 and all('0' <= c <= '9' for c in body)
    reach()
    if got != want:
        return 'MODEL-DOLLAR the regex engine and the reference disagree'
    got2 = bool(re.compile(r'^[0-9]+\Z').match(s))
    want2 = len(s) >= 1 and all('0' <= c <= '9' for c in s)
    return 'ok' if got2 == want2 else 'MODEL-DOLLAR (\\Z)'


def dump_text_plain(kind_i: int, text: str) -> str:
    """replay target of the dump-side language queries: `text` is what the representer writes
    for a value of the given kind; it must resolve to that kind"""
    kind = pick(kind_i, KINDS)
    got = yaml.resolver.Resolver().resolve(ScalarNode, text, (True, False))
    if got != T + kind:
        return fail(P, 'LANG-NOT-INCLUDED ' + ('isoformat-offset-seconds' if kind == 'timestamp' and re.search(r'[-+]\d\d:\d\d:\d\d', text) else kind),
                    offset_seconds=_offset_seconds(text), kind=kind, v=text)
    if kind == 'timestamp' and not yaml.constructor.SafeConstructor.timestamp_regexp.match(text):
        return 'TIMESTAMP-REGEXP'
    return 'ok'


def dt_offset_roundtrip(offset_seconds: int) -> str:
    """safe_load(safe_dump(datetime with the given UTC offset)) (witness of known finding K4)"""
    x = datetime.datetime(2001, 1, 1, 12, 30, 15, tzinfo=datetime.timezone(datetime.timedelta(seconds=offset_seconds)))
    try:
        back = yaml.safe_load(yaml.safe_dump(x))
    except yaml.YAMLError:
        return fail(P, 'YAMLERROR safe_load rejects what safe_dump wrote', offset_seconds=offset_seconds)
    except Exception as e:
        return fail(P, exc_sig(e), offset_seconds=offset_seconds)
    if back != x or back.utcoffset() != x.utcoffset():
        return fail(P, 'VALUE datetime does not round-trip', offset_seconds=offset_seconds)
    return 'ok'


def _offset_seconds(text):
    m = re.search(r'([-+])(\d\d):(\d\d)(?::(\d\d)(?:\.\d+)?)?$', text)
    if not m:
        return 0
    return int(m.group(2)) * 3600 + int(m.group(3)) * 60 + int(m.group(4) or 0)


# ------------------------------------------------------------------ E1 templates
def int_template(form: int, d: str, sign: int) -> str:
    """members of the int language with free digit characters"""
    sg = pick(sign, ['', '-', '+'])
    if form == 0:
        s = sg + '0b' + d
    elif form == 1:
        s = sg + '0x' + d
    elif form == 2:
        s = sg + '0' + d
    elif form == 3:
        s = sg + '1' + d
    elif form == 4:
        s = sg + '1' + d[:1] + ':' + d[1:]
    else:
        s = sg + '1:5' + d[:1] + ':' + d[1:]
    return load_plain(s)


def float_template(form: int, d: str, sign: int) -> str:
    sg = pick(sign, ['', '-', '+'])
    if form == 0:
        s = sg + '1' + d[:1] + '.' + d[1:]
    elif form == 1:
        s = '.' + '5' + d
    elif form == 2:
        s = sg + '1.5e+' + '1' + d[:1]
    elif form == 3:
        s = sg + '1:' + d[:1] + '.' + d[1:]
    else:
        s = sg + '.' + pick(len(d) % 3, ['inf', 'Inf', 'INF'])
    return load_plain(s)


def ts_template(form: int, d: str) -> str:
    """timestamps with free characters: field ranges versus the calendar"""
    a, b = d[0], d[1]
    c = d[2] if len(d) > 2 else '0'
    e = d[3] if len(d) > 3 else '1'
    if form == 0:
        s = '20' + a + b + '-' + c + e + '-01'
    elif form == 1:
        s = '2001-0' + a + '-' + b + c
    elif form == 2:
        s = '2001-02-' + a + b
    elif form == 3:
        s = '2001-12-14 ' + a + b + ':' + c + e + ':00'
    elif form == 4:
        s = '2001-12-14t21:59:' + a + b + '.' + c + e
    elif form == 5:
        s = '2001-12-14 21:59:43 +' + a + b + ':' + c + e
    elif form == 6:
        s = '2001-12-14 21:59:43.1' + a + ' -' + b
    else:
        s = '2' + a + b + c + '-02-29'
    return load_plain(s)


def ts_fraction(n: int, d0: int, d1: int, d2: int, d3: int, d4: int, d5: int, d6: int, tz: int) -> str:
    """fractional seconds with n free digits, read with binary64 rounding switched on (model M12):
    the microsecond field is the first six digits of the fraction, exactly - a computation that
    went through a binary float would be off by one for about 1 % of the fractions"""
    ds = [d0, d1, d2, d3, d4, d5, d6]
    d = ''
    for i in range(7):
        if i < n:
            d += chr(48 + ds[i])
    return load_plain('2001-12-14 21:59:43.' + d + ('' if tz == 0 else 'Z' if tz == 1 else ' -5'))


# ------------------------------------------------------------------ E2 queries
def _live_patterns():
    tags = {}
    for ch, lst in yaml.resolver.Resolver.yaml_implicit_resolvers.items():
        for tag, rx in lst:
            tags.setdefault(tag, [rx, []])[1].append(ch)
    return tags


def _samples():
    out = set(['', '~', 'null', 'yes', 'No', 'TRUE', 'off', 'y', 'n', '0', '-0', '+1', '0b1_0', '0b_', '0x_', '0x1F', '017', '0_', '08',
               '1:30', '1:60', '190:20:30', '1_000', '1.', '.5', '-.5', '1e5', '1.0e+5', '1.5e5', '.inf', '-.INF', '.NaN', '+.nan', '1:30.5',
               '2001-12-14', '2001-1-1', '2001-12-14t21:59:43.10-05:00', '2001-12-14 21:59:43.10 -5', '2001-12-14 21:59:43 Z', '<<', '=', '!',
               '&', 'abc', 'null\n', '0\n', '--', '1__', '0o7', '1e+5', '1.e+5', '._', '._1', '2001-12-14 21:59:43+05:30:15'])
    data = os.path.join(REPO, 'tests', 'legacy_tests', 'data')
    for f in sorted(glob.glob(os.path.join(data, '*.data'))):
        b = os.path.basename(f)
        if not any(k in b for k in ('int', 'float', 'bool', 'null', 'timestamp', 'merge', 'value', 'resolver', 'str')):
            continue
        try:
            for t in yaml.scan(open(f, 'rb').read()):
                if isinstance(t, yaml.ScalarToken) and len(t.value) < 60:
                    out.add(t.value)
        except Exception:
            pass
    return sorted(out)


def smt_checks(tier):
    import itertools
    import z3
    from smt import rex
    res = []
    s = z3.String('s')
    samples = _samples()
    live = _live_patterns()
    Z = {}
    untranslated = set()
    for tag, (rx, firsts) in live.items():
        try:
            zfull = rex.to_z3(rx)
            nval = rex.validate(rx, zfull, samples)
            # the same pattern with '$' as the strict end: plain scalars never end in LF
            Z[tag] = rex.to_z3(rx, strict_end=True)
            nval += rex.validate(rx, Z[tag], [x for x in samples if not x.endswith('\n')])
        except rex.Unsupported as e:
            res.append({'name': 'translate/' + tag[len(T):], 'status': 'inconclusive', 'seconds': 0, 'witness': str(e)})
            untranslated.add(tag)
            continue
        res.append({'name': 'translate/' + tag[len(T):], 'status': 'held', 'seconds': 0, 'validated': nval,
                    'witness': 'translator agrees with re on %d repository/sample scalars' % nval})
    SZ = {}
    for kind, pat in spec.SPEC.items():
        SZ[kind] = rex.to_z3(pat, full=True)
        rex.validate(re.compile(pat), SZ[kind], samples, full=True)
    no_nl_end = z3.BoolVal(True)   # Z[...] are already restricted to strings not ending in LF

    def query(name, constraints, replay_fn=None, extra_args='', expect_known=False):
        st, w, dt = rex.solve(constraints, s)
        q = {'name': name, 'seconds': round(dt, 3), 'checks': 1}
        if st == 'unsat':
            q['status'] = 'held'
            q['cvc5'] = rex.LAST_SECOND[0]
            q['checks'] = 2
        elif st == 'sat':
            wp = rex.z3str_to_py(w)
            q['status'] = 'violated'
            q['witness'] = wp
            if replay_fn:
                q['replay'] = {'module': 'c08', 'fn': replay_fn, 'args': '{%s%r: %r}' % (extra_args, 's' if replay_fn != 'dump_text_plain' else 'text', wp)}
        else:
            q['status'] = 'inconclusive'
            q['witness'] = st
        res.append(q)
        return q

    # a. language equality, both directions, for the 7 tags of the reference
    for kind in spec.ORDER:
        tag = T + kind
        if tag in untranslated:
            res.append({'name': 'lang/%s' % kind, 'status': 'inconclusive', 'seconds': 0, 'witness': 'the live pattern could not be translated'})
            continue
        if tag not in Z:
            res.append({'name': 'lang/%s' % kind, 'status': 'violated', 'seconds': 0, 'witness': 'no live pattern for ' + kind,
                        'replay': {'module': 'c08', 'fn': 'load_plain', 'args': "{'s': %r}" % {'null': '~', 'bool': 'yes', 'int': '1', 'float': '1.5',
                                   'timestamp': '2001-12-14', 'merge': '<<', 'value': '='}[kind]}})
            continue
        query('lang/impl-minus-spec/' + kind, [z3.InRe(s, Z[tag]), no_nl_end, z3.Not(z3.InRe(s, SZ[kind]))], 'load_plain')
        query('lang/spec-minus-impl/' + kind, [z3.InRe(s, SZ[kind]), z3.Not(z3.InRe(s, Z[tag]))], 'load_plain')
    # b. pairwise disjointness of the live languages (list order cannot matter)
    for (a, za), (b, zb) in itertools.combinations(sorted(Z.items()), 2):
        query('disjoint/%s/%s' % (a[len(T):], b[len(T):]), [z3.InRe(s, za), z3.InRe(s, zb)], 'overlap')
    # c. index soundness: a match never starts with a character that is not an index key
    for tag, (rx, firsts) in sorted(live.items()):
        if tag not in Z:
            continue
        cond = []
        for f in firsts:
            if f == '':
                cond.append(s == z3.StringVal(''))
            elif f is None:
                cond.append(z3.BoolVal(True))
            else:
                cond.append(z3.PrefixOf(z3.StringVal(f), s))
        query('index/' + tag[len(T):], [z3.InRe(s, Z[tag]), z3.Not(z3.Or(*cond))], 'load_plain')
    # d. converter domain of construct_yaml_int: at least one digit after 0b / 0x
    R = lambda p: rex.to_z3(p, full=True)
    int_dom = R(r'[-+]?(?:0b_*[01][01_]*|0x_*[0-9a-fA-F][0-9a-fA-F_]*|0[0-7_]+|0|[1-9][0-9_]*(?::[0-5]?[0-9])*)')
    k2 = R(r'[-+]?0[bx]_+')
    if T + 'int' in Z:
        q = query('int-domain/all', [z3.InRe(s, Z[T + 'int']), no_nl_end, z3.Not(z3.InRe(s, int_dom))], 'load_plain')
        query('int-domain/outside-known-finding', [z3.InRe(s, Z[T + 'int']), no_nl_end, z3.Not(z3.InRe(s, int_dom)), z3.Not(z3.InRe(s, k2))], 'load_plain')
    # e/f/g. dump side: the text the representers write lies in the language of its own type
    dump_langs = {
        'int': (2, r'-?(?:0|[1-9][0-9]*)'),
        'float': (3, r'-?[0-9]+\.[0-9]+(?:e[-+][0-9]+)?|-?[0-9]\.0e[-+][0-9]+|\.nan|-?\.inf'),
        'bool': (1, r'true|false'),
        'null': (0, r'null'),
        'date': (4, r'[0-9]{4}-[0-9]{2}-[0-9]{2}'),
        'datetime': (4, r'[0-9]{4}-[0-9]{2}-[0-9]{2} [0-9]{2}:[0-9]{2}:[0-9]{2}(?:\.[0-9]{6})?(?:[-+][0-9]{2}:[0-9]{2})?'),
        'datetime-offset-seconds': (4, r'[0-9]{4}-[0-9]{2}-[0-9]{2} [0-9]{2}:[0-9]{2}:[0-9]{2}(?:\.[0-9]{6})?[-+][0-9]{2}:[0-9]{2}:(?:[0-9][1-9]|[1-9][0-9])'),
    }
    for name, (ki, pat) in dump_langs.items():
        kind = KINDS[ki]
        if T + kind not in Z:
            continue
        cs = [z3.InRe(s, R(pat)), z3.Not(z3.InRe(s, Z[T + kind]))]
        query('dump-lang/' + name, cs, 'dump_text_plain', extra_args="'kind_i': %d, " % ki)
    # i. the constructor's own timestamp pattern accepts every implicit timestamp
    try:
        zc = rex.to_z3(yaml.constructor.SafeConstructor.timestamp_regexp, strict_end=True)
        rex.validate(yaml.constructor.SafeConstructor.timestamp_regexp, zc, [x for x in samples if not x.endswith('\n')])
        if T + 'timestamp' in Z:
            query('timestamp/constructor-regexp-covers-resolver', [z3.InRe(s, Z[T + 'timestamp']), no_nl_end, z3.Not(z3.InRe(s, zc))], 'constructor_regexp')
    except rex.Unsupported as e:
        res.append({'name': 'timestamp/constructor-regexp', 'status': 'inconclusive', 'seconds': 0, 'witness': str(e)})
    return res


def selftests():
    from symex import models
    out = [pymodels.selftest_int_float(), models.selftest_rnd64()]
    # the reference evaluator on the repository's own construct-*.data expectations (sanity of the oracle)
    n = 0
    for txt, want in [('685230', 685230), ('+685_230', 685230), ('02472256', 685230), ('0x_0A_74_AE', 685230), ('0b1010_0111_0100_1010_1110', 685230),
                      ('190:20:30', 685230), ('-0b1', -1), ('0', 0)]:
        assert spec.classify(txt) == 'int' and spec.int_value(txt) == want, txt
        n += 1
    for txt, want in [('6.8523015e+5', 685230.15), ('685.230_15e+03', 685230.15), ('685_230.15', 685230.15), ('190:20:30.15', 685230.15), ('-.inf', float('-inf'))]:
        assert spec.classify(txt) == 'float' and abs(spec.float_value(txt) - want) <= 1e-9 * abs(want) or spec.float_value(txt) == want, txt
        n += 1
    assert spec.classify('2001-12-14t21:59:43.10-05:00') == 'timestamp'
    assert spec.timestamp_value('2001-12-14t21:59:43.10-05:00')[1] == datetime.datetime(2001, 12, 14, 21, 59, 43, 100000, tzinfo=datetime.timezone(datetime.timedelta(hours=-5)))
    assert spec.classify('y') == 'str' and spec.classify('1e5') == 'str' and spec.classify('-.5') == 'str'
    out.append('reference evaluator reproduces %d expectations of the repository construct-*.data files' % (n + 2))
    return out


FIRST = [('empty', None, None), ('lt-plus', 0, 0x2b), ('sign-dot', 0x2b, 0x30), ('digit', 0x30, 0x3a), ('colon-lt', 0x3a, 0x3d), ('eq-gt', 0x3d, 0x41),
         ('A-Z', 0x41, 0x5b), ('[-`', 0x5b, 0x61), ('a-z', 0x61, 0x7b), ('{~', 0x7b, 0x7f), ('high', 0x7f, 0x110000)]


def jobs(tier):
    q = tier == 'quick'
    L = 2 if q else 3
    js = []
    for name, lo, hi in FIRST:
        if lo is None:
            pre = [lambda s: len(s) == 0]
        else:
            pre = [lambda s, _lo=lo, _hi=hi: 1 <= len(s) <= L and _lo <= ord(s[0]) < _hi]
        js.append(Job('plain/' + name, load_plain, pre, budget=200 if q else 1500, need_reach=name in ('empty', 'sign-dot', 'digit', 'A-Z', 'a-z', '{~'),
                      bounds='resolve+construct of every plain text len<=%d, first char class %s' % (L, name)))
        if lo is None:
            pre2 = [lambda s, ctx: len(s) == 0 and 0 <= ctx <= 2]
        else:
            pre2 = [lambda s, ctx, _lo=lo, _hi=hi: 1 <= len(s) <= L and _lo <= ord(s[0]) < _hi and 0 <= ctx <= 2]
        js.append(Job('dump-flags/' + name, dump_flags, pre2, budget=420 if q else 1500, need_reach=name in ('empty', 'digit', 'a-z', 'A-Z'),
                      bounds='serializer flags + emitter style choice for every str len<=%d (block, flow, simple-key contexts), first char class %s' % (L, name)))
    NB = 10 ** 6 if q else 10 ** 9
    js.append(Job('dump-int/nonneg', dump_int, [lambda n: 0 <= n < NB], budget=200 if q else 1500,
                  bounds='every int 0 <= n < %d: str(n) is in the int language and denotes n' % NB))
    js.append(Job('dump-int/neg', dump_int, [lambda n: -1000 < n < 0], budget=120 if q else 1500, exhaust=False,
                  bounds='ints -1000 < n < 0 (CrossHair enumerates negative values through str(): bug-hunting only)'))
    js.append(Job('model-dollar', dollar_model, [lambda s: len(s) <= 3], budget=100,
                  bounds="the engine's regex model (M13: '$' before a final line feed) against a hand-written reference on every str len<=3"))
    js.append(Job('dump-consts', dump_consts, [lambda k: 0 <= k < 16], budget=100, bounds='None, bools, dates, datetimes, special and sample floats'))
    DL = 2 if q else 3
    for f in range(6):
        js.append(Job('int-template/%d' % f, int_template, [lambda form, d, sign, _f=f: form == _f and 1 <= len(d) <= DL and 0 <= sign <= 2],
                      budget=200 if q else 1500, bounds='int form %d with %d free characters and a sign' % (f, DL)))
    for f in range(5):
        js.append(Job('float-template/%d' % f, float_template, [lambda form, d, sign, _f=f: form == _f and 1 <= len(d) <= DL and 0 <= sign <= 2],
                      budget=200 if q else 1500, bounds='float form %d with %d free characters and a sign' % (f, DL)))
    for f in range(8):
        TSL = 2 if q else 4
        js.append(Job('ts-template/%d' % f, ts_template, [lambda form, d, _f=f: form == _f and len(d) == TSL],
                      budget=200 if q else 1800, need_reach=False,
                      bounds='timestamp form %d with %d free characters' % (f, TSL)))
    isd = lambda x: all('0' <= c <= '9' for c in x)
    FL = 2 if q else 3
    for f in range(5):
        js.append(Job('float-repr/%d' % f, float_repr,
                      [lambda form, d, sign, _f=f: form == _f and len(d) == FL and isd(d) and 0 <= sign <= 1],
                      budget=200 if q else 1200,
                      bounds='represent_float on a repr() text of shape %s with %d free digits and a sign: the output resolves to float '
                             'and denotes the same number' % (['D.D', 'De+DD', 'D.De+DD', 'De-DD', 'D.De-DD'][f], FL)))
    js.append(Job('int-digit-limit', int_digit_limit, [lambda n, side, sign: 4296 <= n <= 4305 and 0 <= side <= 1 and 0 <= sign <= 2], budget=120,
                  bounds='decimal integers of 4296..4305 digits (the digit count is the solver variable; the text is concrete per path) x load / dump x sign'))
    for n in ([4, 6] if q else [1, 2, 3, 4, 5, 6, 7]):
        js.append(Job('ts-fraction/%d-digits' % n, ts_fraction,
                      [lambda n, d0, d1, d2, d3, d4, d5, d6, tz, _n=n: n == _n and 0 <= d0 <= 9 and 0 <= d1 <= 9 and 0 <= d2 <= 9 and 0 <= d3 <= 9 and
                       0 <= d4 <= 9 and 0 <= d5 <= 9 and 0 <= d6 <= 9 and (tz == 0 if q else 0 <= tz <= 2)],
                      budget=200 if q else 900, ieee=True,
                      bounds='timestamp with a fraction of %d free digits; float arithmetic rounded to binary64 (M12)' % n))
    return js
