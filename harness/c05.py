"""C05 - emitting then parsing returns the same events (Py leg)."""
import yaml
from yaml.events import *   # noqa
from yaml.emitter import Emitter, EmitterError
from symex.hlib import Job, reach, fail, exc_sig, not_a_finding, pick
from symex import pymodels
from harness.emitlib import Sink, BREAKS
from harness.c02 import ALPHA

P = 'C05'
T = 'tag:yaml.org,2002:'
ENCODED = ['Emitter (every expect_* state, need_more_events/need_events, check_simple_key, process_anchor/process_tag, choose_scalar_style, '
           'analyze_scalar, prepare_tag/prepare_tag_prefix/prepare_tag_handle/prepare_anchor/prepare_version, every writer)',
           'Reader, Scanner, Parser', 'through yaml.emit(events, stream, **options) and yaml.parse(text)']
BOUNDS = {'quick': 'one scalar event (value: one free character over all code points, or 2 characters of a 34-character class alphabet) x requested style in 6 x '
                   'implicit pair in 4 x anchor x tag kind in 7 (incl. a URI with one free character, incl. non-ASCII) x 6 skeletons x document directives '
                   '(version, %TAG with a free prefix character) x canonical / allow_unicode / width; ill-formed streams of <=4 events over 14 kinds (4 ill-formed in themselves); '
                   'prepare_* helpers on strings of len<=3',
          'thorough': 'value of 2 free characters; ill-formed streams of <=5 events; prepare_* on len<=4'}
OUTSIDE = 'CEmitter / CParser; event streams larger than the skeletons'
ASSUMPTIONS = ['M2 (%%%02X / \\xXX formatting) and M4e (str.encode) models', 'events are built directly by the harness',
               'Fixed findings F2 (non-ASCII %TAG prefix) and F3 (NEL) are listed in known_findings.json']

STYLE_REQ = [None, '', "'", '"', '|', '>']
IMPL = [(True, True), (True, False), (False, True), (False, False)]


def mk_tag(kind, c):
    """(event tag, document tags dict) for the 7 tag kinds; c is one free character"""
    if kind == 0:
        return None, None
    if kind == 1:
        return '!', None
    if kind == 2:
        return '!local', None
    if kind == 3:
        return T + 'str', None
    if kind == 4:
        return 't:' + c + 'x', None            # verbatim URI: !<...>
    if kind == 5:
        return 't:a/' + c, {'!e!': 't:a/'}
    return '!' + c + 'x', None


def skeleton(sk, ev, flow):
    """place the scalar event into a small well-formed document body"""
    S = lambda v: ScalarEvent(None, None, (True, False), v)
    if sk == 0:
        return [ev]
    if sk == 1:
        return [SequenceStartEvent(None, None, True, flow_style=flow), ev, S('z'), SequenceEndEvent()]
    if sk == 2:
        return [MappingStartEvent(None, None, True, flow_style=flow), ev, S('v'), MappingEndEvent()]
    if sk == 3:
        return [MappingStartEvent(None, None, True, flow_style=flow), S('k'), ev, MappingEndEvent()]
    if sk == 4:
        return [SequenceStartEvent(None, None, True, flow_style=flow), MappingStartEvent(None, None, True, flow_style=flow), ev,
                SequenceStartEvent(None, None, True, flow_style=flow), SequenceEndEvent(), MappingEndEvent(), SequenceEndEvent()]
    if sk == 5:
        return [MappingStartEvent('m', None, True, flow_style=flow), S('k'), SequenceStartEvent(None, None, True, flow_style=flow), ev,
                AliasEvent('m'), SequenceEndEvent(), MappingEndEvent()]
    if sk == 6:
        # a *collection* with an (implicit, hence elided) tag as mapping key; the scalar under test is its first item
        return [MappingStartEvent(None, None, True, flow_style=flow), SequenceStartEvent(None, T + 'seq', True, flow_style=True), ev, S('b'),
                SequenceEndEvent(), S('v'), MappingEndEvent()]
    # a tagged mapping as key whose first key is the scalar under test; then a tagged sequence value
    return [MappingStartEvent(None, None, True, flow_style=flow), MappingStartEvent(None, T + 'map', True, flow_style=True), ev, S('b'),
            MappingEndEvent(), SequenceStartEvent(None, '!s', False, flow_style=flow), S('c'), SequenceEndEvent(), MappingEndEvent()]


def same_events(orig, got):
    """the comparison of the property: structure, anchors, scalar contents, tags (or legitimately elided), directives"""
    if len(orig) != len(got):
        return 'EVENTS %d emitted, %d parsed' % (len(orig), len(got))
    for a, b in zip(orig, got):
        if type(a) is not type(b):
            return 'EVENTS %s parsed as %s' % (type(a).__name__, type(b).__name__)
        if isinstance(a, (AliasEvent, ScalarEvent, SequenceStartEvent, MappingStartEvent)):
            if a.anchor != b.anchor:
                return 'ANCHOR differs'
        if isinstance(a, ScalarEvent):
            if a.value != b.value:
                return 'VALUE scalar content differs'
            if b.tag is None:
                plain = b.style is None
                if plain and not a.implicit[0]:
                    return 'TAG elided on a plain scalar whose event did not allow it'
                if not plain and not a.implicit[1]:
                    return 'TAG elided on a non-plain scalar whose event did not allow it'
            elif b.tag == '!' and a.tag is None:
                pass
            elif a.tag != b.tag:
                return 'TAG differs'
        if isinstance(a, (SequenceStartEvent, MappingStartEvent)):
            if b.tag is None:
                if not a.implicit:
                    return 'TAG elided on a collection whose event did not allow it'
            elif a.tag != b.tag:
                return 'TAG differs'
        if isinstance(a, DocumentStartEvent):
            if a.version is not None and a.version != b.version:
                return 'DIRECTIVE %YAML differs'
            if (a.tags or None) != (b.tags or None):
                return 'DIRECTIVE %TAG differs'
    return None


def emit_parse(events, opts):
    out = Sink()
    yaml.emit(events, out, **opts)
    text = out.getvalue()
    return text, list(yaml.parse(text))


def one_scalar(x: str, c: str, style_i: int, impl_i: int, anch: bool, tag_i: int, sk: int, flow: bool, ver: bool,
               canonical: bool, allow_unicode: bool, width: int) -> str:
    tag, dtags = mk_tag(tag_i, c)
    ev = ScalarEvent('a' if anch else None, tag, pick(impl_i, IMPL), x, style=pick(style_i, STYLE_REQ))
    events = [StreamStartEvent(), DocumentStartEvent(explicit=False, version=(1, 1) if ver else None, tags=dtags)]
    events += skeleton(sk, ev, flow)
    events += [DocumentEndEvent(explicit=False), StreamEndEvent()]
    wellformed = not (tag is None and not ev.implicit[0] and not ev.implicit[1])
    try:
        text, got = emit_parse(events, dict(canonical=canonical, allow_unicode=allow_unicode, width=width))
    except EmitterError:
        if wellformed and not _bad_tag(tag_i, c):
            return fail(P, 'EMITTER-ERROR on a well-formed stream', tag_i=tag_i, c=c)
        return 'ok'
    except yaml.YAMLError as e:
        return fail(P, 'REPARSE the emitted text is rejected (%s)' % type(e).__name__, tag_i=tag_i, c=c, x=x)
    except Exception as e:
        not_a_finding(e)
        return fail(P, exc_sig(e), tag_i=tag_i, c=c, x=x)
    reach()
    if not wellformed:
        return fail(P, 'ACCEPTED a scalar without tag and with implicit (False, False)', tag_i=tag_i)
    r = same_events(events, got)
    if r:
        return fail(P, r, tag_i=tag_i, c=c, x=x, sk=sk)
    return 'ok'


def _bad_tag(tag_i, c):
    # a local tag '!<c>x' / handle with an empty or '!'-only shape cannot be written; the emitter may refuse it
    return False


NONASCII = ['\x80', '\xe9', '\u07ff', '\u0800', '\u20ac', '\ud7ff', '\ue000', '\ufffd', '\U00010000', '\U0001f600', '\U0010ffff', '\x85', '\u2028', '\ufeff']


def one_scalar_nonascii(ci: int, style_i: int, impl_i: int, anch: bool, tag_i: int, sk: int, ver: bool) -> str:
    """tags with a non-ASCII character: boundary code points of every UTF-8 length class"""
    return one_scalar('v', pick(ci, NONASCII), style_i, impl_i, anch, tag_i, sk, False, ver, False, True, 80)


def one_scalar_alpha(i0: int, i1: int, n: int, style_i: int, impl_i: int, sk: int, flow: bool, canonical: bool, allow_unicode: bool, width: int) -> str:
    x = ''
    for k, i in enumerate((i0, i1)):
        if k < n:
            x += pick(i, ALPHA)
    return one_scalar(x, 'c', style_i, impl_i, False, 0, sk, flow, False, canonical, allow_unicode, width)


PREFIX_CHARS = ['', 'a', '!', ' ', '%', ',', '[', '#', '\n', '\x01'] + ['\xe9', '\u20ac', '\U0001f600', '\x85', '\u2028', '\ufeff']
HANDLE_CHARS = ['e', '', '1', '-', '_', '!', ' ', '\xe9']


FOLD = 'a \n\xe9"'


def fold(k0: int, k1: int, k2: int, k3: int, k4: int, k5: int, n: int, style_i: int, sk: int, width: int, allow_unicode: bool) -> str:
    """longer scalar text over a small alphabet with an effective narrow width: fold points of every
    writer, folds right after an escape, more-indented lines"""
    ks = [k0, k1, k2, k3, k4, k5]
    x = ''
    for i in range(6):
        if i < n:
            x += pick(ks[i], FOLD)
    return one_scalar(x, 'c', style_i, 0, False, 0, sk, False, False, False, allow_unicode, width)


def directives(pi: int, hi: int, ver_minor: int, explicit: bool) -> str:
    """%TAG with a prefix character and a handle character chosen by solver variables (a dict of
    tag handles cannot hold a symbolic key, so the characters are picked from class representatives),
    %YAML 1.x"""
    p, h = pick(pi, PREFIX_CHARS), pick(hi, HANDLE_CHARS)
    handle = '!' + h + '!'
    prefix = 't:' + p
    ver_minor = pick(ver_minor, [0, 1, 2])
    events = [StreamStartEvent(), DocumentStartEvent(explicit=explicit, version=(1, ver_minor), tags={handle: prefix}),
              ScalarEvent(None, prefix + 'foo', (False, False), 'v'), DocumentEndEvent(explicit=explicit), StreamEndEvent()]
    try:
        text, got = emit_parse(events, {})
    except EmitterError:
        reach()
        return 'ok'      # e.g. a handle character that cannot be written: refused with the emitter's own error
    except yaml.YAMLError as e:
        return fail(P, 'REPARSE the emitted text is rejected (%s)' % type(e).__name__, pi=pi, hi=hi)
    except Exception as e:
        not_a_finding(e)
        return fail(P, exc_sig(e), pi=pi, hi=hi)
    reach()
    r = same_events(events, got)
    if r:
        return fail(P, r, pi=pi, hi=hi)
    return 'ok'


DOC_TAGS = [None, {'!e!': 't:a/'}, {'!e!': 't:b/', '!f!': 't:a/'}]     # the third rebinds the handle and names the prefix otherwise
NODE_TAGS = [None, 't:a/foo', 't:a/', T, T + 'str', '!', '!local']


def _root(kind, tag):
    impl = tag is None
    if kind == 0:
        return [ScalarEvent(None, tag, (impl, False), 'abc')]
    if kind == 1:
        return [ScalarEvent(None, tag, (False, impl), 'abc', style='"')]
    if kind == 2:
        return [ScalarEvent(None, tag, (False, impl), 'abc\n\n', style='|')]      # keep chomping: open ended
    if kind == 3:
        return [SequenceStartEvent(None, tag, impl, flow_style=False), ScalarEvent(None, None, (True, False), 'a'), SequenceEndEvent()]
    if kind == 4:
        return [MappingStartEvent(None, tag, impl, flow_style=True), ScalarEvent(None, None, (True, False), 'k'),
                ScalarEvent(None, None, (True, False), 'v'), MappingEndEvent()]
    return [ScalarEvent(None, tag, (impl, False), '')]


def multidoc(n: int, r0: int, r1: int, r2: int, v0: bool, v1: bool, v2: bool, t0: int, t1: int, t2: int, e0: bool, e1: bool, e2: bool,
             g0: int, g1: int, g2: int, s0: bool, s1: bool, s2: bool) -> str:
    """streams of n documents: what one document leaves open (an open-ended scalar, no explicit
    end) against what the next one starts with (%YAML, %TAG, explicit start, a tagged root)"""
    R, V, TG, E, G, S = [r0, r1, r2], [v0, v1, v2], [t0, t1, t2], [e0, e1, e2], [g0, g1, g2], [s0, s1, s2]
    events = [StreamStartEvent()]
    for i in range(3):
        if i < n:
            events.append(DocumentStartEvent(explicit=S[i], version=(1, 1) if V[i] else None, tags=pick(TG[i], DOC_TAGS)))
            events += _root(R[i], pick(G[i], NODE_TAGS))
            events.append(DocumentEndEvent(explicit=E[i]))
    events.append(StreamEndEvent())
    try:
        text, got = emit_parse(events, {})
    except EmitterError:
        return fail(P, 'EMITTER-ERROR on a well-formed stream', n=n)
    except yaml.YAMLError as e:
        return fail(P, 'REPARSE the emitted text is rejected (%s)' % type(e).__name__, n=n)
    except Exception as e:
        not_a_finding(e)
        return fail(P, exc_sig(e), n=n)
    reach()
    r = same_events(events, got)
    if r:
        return fail(P, r, n=n)
    return 'ok'


KINDS = ['StreamStart', 'StreamEnd', 'DocumentStart', 'DocumentEnd', 'Scalar', 'Alias', 'SequenceStart', 'SequenceEnd', 'MappingStart', 'MappingEnd',
         # events that are ill-formed in themselves: every one must end in an EmitterError, wherever it stands
         'AliasNoAnchor', 'DocStartV2', 'ScalarNoTag', 'SeqBadAnchor']


def _mk_event(k):
    name = pick(k, KINDS)
    if name == 'Scalar':
        return ScalarEvent(None, None, (True, False), 'v')
    if name == 'Alias':
        return AliasEvent('a')
    if name == 'AliasNoAnchor':
        return AliasEvent(None)
    if name == 'DocStartV2':
        return DocumentStartEvent(version=(2, 0))
    if name == 'ScalarNoTag':
        return ScalarEvent(None, None, (False, False), 'v')
    if name == 'SeqBadAnchor':
        return SequenceStartEvent('a b', None, True)
    if name == 'SequenceStart':
        return SequenceStartEvent(None, None, True)
    if name == 'MappingStart':
        return MappingStartEvent(None, None, True)
    return globals()[name + 'Event']()


def illformed(n: int, k0: int, k1: int, k2: int, k3: int, k4: int) -> str:
    """any sequence of events: accepted (and then the text parses) or EmitterError - nothing else"""
    ks = [k0, k1, k2, k3, k4][:n]
    out = Sink()
    em = yaml.Dumper(out)
    try:
        try:
            for k in ks:
                em.emit(_mk_event(k))
        finally:
            em.dispose()
    except EmitterError:
        reach()
        return 'ok'
    except Exception as e:
        not_a_finding(e)
        return fail(P, 'illformed ' + exc_sig(e), n=n)
    try:
        list(yaml.parse(out.getvalue()))
    except yaml.YAMLError as e:
        # only a *complete* accepted stream has to re-parse
        if ks and pick(ks[-1], KINDS) == 'StreamEnd':
            return fail(P, 'REPARSE an accepted complete stream is rejected', n=n)
    except Exception as e:
        not_a_finding(e)
        return fail(P, 'illformed-parse ' + exc_sig(e), n=n)
    return 'ok'


def prepare(which: int, x: str) -> str:
    """the tag / handle / prefix / anchor preparers on arbitrary short strings: result or EmitterError"""
    em = Emitter(Sink())
    em.tag_prefixes = Emitter.DEFAULT_TAG_PREFIXES.copy()
    try:
        if which == 0:
            r = em.prepare_tag(x)
        elif which == 1:
            r = em.prepare_tag_prefix(x)
        elif which == 2:
            r = em.prepare_tag_handle(x)
        else:
            r = em.prepare_anchor(x)
    except EmitterError:
        reach()
        return 'ok'
    except Exception as e:
        not_a_finding(e)
        return fail(P, 'prepare ' + exc_sig(e), which=which, x=x)
    reach()
    for ch in r:
        if not (' ' < ch <= '~'):
            return fail(P, 'PREPARE produced a character that cannot appear in a tag/anchor', which=which, x=x)
    return 'ok'


def tag_uri(c: str, which: int) -> str:
    """unit level, every Unicode scalar value: what prepare_tag / prepare_tag_prefix write for a tag
    (resp. %TAG prefix) holding the character c is read back by the scanner + parser as the same text
    (UTF-8 encode -> %XX escapes -> hex parse -> UTF-8 decode, all on the symbolic character)"""
    em = Emitter(Sink())
    em.tag_prefixes = Emitter.DEFAULT_TAG_PREFIXES.copy()
    tag = 't:' + c
    try:
        if which == 0:
            text = em.prepare_tag(tag) + ' x'
        else:
            text = '%TAG !e! ' + em.prepare_tag_prefix(tag) + '\n--- !e!x y'
    except EmitterError:
        return 'ok'
    except Exception as e:
        not_a_finding(e)
        return fail(P, 'prepare ' + exc_sig(e), which=which)
    try:
        evs = list(yaml.parse(text))
    except yaml.YAMLError as e:
        return fail(P, 'REPARSE the prepared tag text is rejected (%s)' % type(e).__name__, which=which)
    except Exception as e:
        not_a_finding(e)
        return fail(P, exc_sig(e), which=which)
    reach()
    sc = [e for e in evs if isinstance(e, ScalarEvent)]
    if len(sc) != 1:
        return fail(P, 'EVENTS', which=which)
    want = tag if which == 0 else tag + 'x'
    if sc[0].tag != want:
        return fail(P, 'TAG with an escaped character is read back differently', which=which)
    return 'ok'


def selftests():
    return [pymodels.selftest_codecs()]


def _nosur(c):
    # lone surrogates are not Unicode scalar values: a tag / prefix holding one is outside the claim
    return not ('\ud800' <= c <= '\udfff')


def jobs(tier):
    q = tier == 'quick'
    js = []
    XL = 1 if q else 2
    # scalar value: free character(s); tag None; all styles, implicit pairs, skeletons
    for st in range(6):
        for sk in (((0, 2) if st in (0, 4) else (2,)) if q else range(6)):
            js.append(Job('value/style%d/sk%d' % (st, sk), one_scalar,
                          [lambda x, c, style_i, impl_i, anch, tag_i, sk, flow, ver, canonical, allow_unicode, width, _st=st, _sk=sk:
                           style_i == _st and sk == _sk and len(x) <= XL and c == 'c' and (impl_i == 0 if q else 0 <= impl_i <= 3) and not anch and tag_i == 0 and not flow
                           and not ver and not canonical and width == 80],
                          budget=360 if q else 1200, exhaust=q,
                          bounds='scalar value len<=%d over all code points, requested style %r, skeleton %d, allow_unicode both' % (XL, STYLE_REQ[st], sk)))
    # tags: 7 kinds with a free character, anchors, implicit pairs
    for tg in range(7):
        for tsk in ((2, 6) if q else (0, 2, 6, 7)):
            js.append(Job('tag/kind%d/sk%d' % (tg, tsk), one_scalar,
                          [lambda x, c, style_i, impl_i, anch, tag_i, sk, flow, ver, canonical, allow_unicode, width, _t=tg, _k=tsk:
                           tag_i == _t and x == 'v' and len(c) == 1 and c < '\x80' and (style_i == 0 if (q and _t >= 4) else (style_i == 0 or style_i == 3)) and 0 <= impl_i <= 3 and
                           sk == _k and not flow and (not ver if q else True) and (not anch if q else True)
                           and not canonical and width == 80 and allow_unicode],
                          budget=360 if q else 1200,
                          bounds='tag kind %d with one free ASCII character x 4 implicit pairs, skeleton %d' % (tg, tsk)))
        if tg >= 4:
            js.append(Job('tag-nonascii/kind%d' % tg, one_scalar_nonascii,
                          [lambda ci, style_i, impl_i, anch, tag_i, sk, ver, _t=tg: tag_i == _t and 0 <= ci < len(NONASCII) and (style_i == 0 or style_i == 3) and
                           0 <= impl_i <= 3 and (sk == 0 or sk == 2)],
                          budget=150 if q else 1200,
                          bounds='tag kind %d with one of %d non-ASCII boundary code points (every UTF-8 length class, NEL, LS, BOM) x anchor x implicit pairs x %%YAML x 2 styles x 2 skeletons' % (tg, len(NONASCII))))
    # options on the class alphabet
    NA = len(ALPHA)
    for a in range(NA):
        js.append(Job('alpha/first=%r' % ALPHA[a], one_scalar_alpha,
                      [lambda i0, i1, n, style_i, impl_i, sk, flow, canonical, allow_unicode, width, _a=a:
                       i0 == _a and 0 <= i1 < NA and n == 2 and 0 <= style_i <= 5 and impl_i == 0 and
                       (sk == 3 if q else (sk == 1 or sk == 3 or sk == 5)) and
                       ((width == 80) if q else (width == 80 or width == 4)) and (not canonical if q else True) and (flow if sk == 5 else not flow)],
                      budget=150 if q else 1500, exhaust=q,
                      bounds='2-character strings over the class alphabet starting with %r x 6 requested styles x allow_unicode' % ALPHA[a]))
    FN = 5 if q else 6
    for st in ((0, 3, 5) if q else range(6)):
        for k in range(5):
            js.append(Job('fold/style%d/first=%r' % (st, FOLD[k]), fold,
                          [lambda k0, k1, k2, k3, k4, k5, n, style_i, sk, width, allow_unicode, _s=st, _k=k:
                           style_i == _s and k0 == _k and n == FN and 0 <= k1 <= 4 and 0 <= k2 <= 4 and 0 <= k3 <= 4 and 0 <= k4 <= 4 and
                           0 <= k5 <= (4 if FN == 6 else 0) and (sk == 3 if q else (sk == 0 or sk == 3 or sk == 1)) and (width == 5 if q else 5 <= width <= 7)
                           and (not allow_unicode if q else True)],
                          budget=200 if q else 1800, exhaust=q,
                          bounds='scalar text of len %d over {a, space, LF, e-acute, "} starting with %r, requested style %r, width %s, mapping value%s' % (
                              FN, FOLD[k], STYLE_REQ[st], '5' if q else '5..7', '' if q else ' / root / sequence item')))
    for w in range(2):
        for name, lo, hi in [('ascii', 0, 0x80), ('2byte', 0x80, 0x800), ('3byte', 0x800, 0x10000), ('4byte', 0x10000, 0x110000)]:
            js.append(Job('tag-uri/%s/%s' % ('tag' if w == 0 else 'prefix', name), tag_uri,
                          [lambda c, which, _w=w, _lo=lo, _hi=hi: which == _w and len(c) == 1 and _lo <= ord(c) < _hi and not ('\ud800' <= c <= '\udfff')],
                          budget=(600 if name == '4byte' else 250) if q else 900, per_path_timeout=60,
                          bounds='%s holding one character, every Unicode scalar value in U+%04X..U+%04X: prepare + scan + parse round trip' % (
                              'tag' if w == 0 else '%TAG prefix', lo, hi - 1)))
    NG = len(NODE_TAGS)
    for r in range(6):
        for t in range(len(DOC_TAGS)):
            # quick: first document free, second document {plain scalar, sequence} root with every directive / tag combination
            js.append(Job('multidoc/first-root=%d/tags=%d' % (r, t), multidoc,
                          [lambda n, r0, r1, r2, v0, v1, v2, t0, t1, t2, e0, e1, e2, g0, g1, g2, s0, s1, s2, _r=r, _t=t:
                           r0 == _r and t0 == _t and 0 <= t1 <= 2 and 0 <= g1 < NG and
                           ((n == 2 and 0 <= g0 <= 1 and not s0 and (r1 == 0 or r1 == 3) and r2 == 0 and not v2 and t2 == 0 and not e2 and g2 == 0 and not s2 and not s1) if q else
                            (2 <= n <= 3 and 0 <= g0 < NG and 0 <= r1 <= 5 and (r2 == 0 or r2 == 3) and 0 <= t2 <= 2 and 0 <= g2 <= 2))],
                          budget=200 if q else 1500, exhaust=q,
                          bounds='streams of 2 documents (3 in the thorough tier): first root kind %d of 6 (plain / double-quoted / literal-keep scalar, block sequence, flow mapping, empty scalar), %%TAG set %d of 3 '
                                 '(none, one handle, the handle rebound and the prefix under another handle) x untagged / handle+suffix root x %%YAML x explicit end; '
                                 'second document: %%YAML x %%TAG in 3 x explicit end x root tag in 7 kinds (none, handle+suffix, exactly a %%TAG prefix, exactly the !! prefix, !!str, !, !local)' % (r, t)))
    js.append(Job('directives', directives, [lambda pi, hi, ver_minor, explicit: 0 <= pi < len(PREFIX_CHARS) and 0 <= hi < len(HANDLE_CHARS) and 0 <= ver_minor <= 2],
                  budget=200 if q else 600, bounds='%%TAG !<h>! t:<p> over %d prefix and %d handle class representatives x %%YAML 1.0-1.2 x explicit' % (len(PREFIX_CHARS), len(HANDLE_CHARS))))
    IN = 4 if q else 5
    for k in range(10):
        js.append(Job('illformed/first=%s' % KINDS[k], illformed,
                      [lambda n, k0, k1, k2, k3, k4, _k=k: 1 <= n <= IN and k0 == _k and 0 <= k1 <= 13 and 0 <= k2 <= 13 and 0 <= k3 <= 13 and 0 <= k4 <= (13 if IN == 5 else 0)],
                      budget=200 if q else 1500, bounds='event sequences of len<=%d over 14 kinds (4 of them events that are ill-formed in themselves), first %s' % (IN, KINDS[k])))
    RL = 2 if q else 3
    for w, name in enumerate(['prepare_tag', 'prepare_tag_prefix', 'prepare_tag_handle', 'prepare_anchor']):
        js.append(Job('prepare/' + name, prepare, [lambda which, x, _w=w: which == _w and len(x) <= RL and all(_nosur(ch) for ch in x)], budget=150 if q else 1500,
                      bounds='%s on every str of len<=%d (Unicode scalar values)' % (name, RL)))
    return js
