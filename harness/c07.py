"""C07 - the result does not depend on how the input is delivered (Py leg)."""
import codecs
import types

import yaml
import yaml.reader
from symex.hlib import Job, reach, fail, exc_sig, not_a_finding, pick
from symex import standins, pymodels

P = 'C07'
ENCODED = ['Reader.__init__ / determine_encoding / update / update_raw / peek / prefix / forward / check_printable / get_mark',
           'Scanner (through yaml.scan) on top of each delivery form']
BOUNDS = {'quick': 'text streams: every str of len<=2 with a 2-read schedule as solver variables, and a 14-document corpus with every 1- and 2-split schedule; '
                   'byte streams: the corpus in UTF-8, UTF-8+BOM, UTF-16-LE+BOM, UTF-16-BE+BOM with 2 split positions as solver variables (inside multi-byte sequences, '
                   'surrogate pairs, CR LF, after the first byte), with an invalid byte injected at a solver-chosen offset; every byte string of len<=2 with one split; '
                   'documents straddling the 4096 refill boundary',
          'thorough': 'str len<=3 with 3 reads; byte strings len<=3 with 2 splits; 3 splits on the corpus'}
OUTSIDE = 'C input handler; documents x schedules beyond the bounds'
ASSUMPTIONS = ['M4: pure-Python models of codecs.utf_8_decode / utf_16_le_decode / utf_16_be_decode stand in for the C codecs (differentially self-tested, error start/end/reason included)',
               'error messages are compared through the M1 placeholder (class and position are compared exactly)']

CODECS = types.SimpleNamespace(BOM_UTF16_LE=codecs.BOM_UTF16_LE, BOM_UTF16_BE=codecs.BOM_UTF16_BE,
                               utf_8_decode=pymodels.utf_8_decode, utf_16_le_decode=pymodels.utf_16_le_decode,
                               utf_16_be_decode=pymodels.utf_16_be_decode)


class Chunks:
    """the caller's stream: the i-th read returns the next sizes[i] items (then everything requested)"""
    def __init__(self, data, sizes):
        self.data = data
        self.sizes = list(sizes)
        self.pos = 0
        self.reads = 0

    def read(self, n=-1):
        want = len(self.data) - self.pos if n is None or n < 0 else n
        if self.reads < len(self.sizes):
            k = self.sizes[self.reads]
            if k < want:
                want = k
        self.reads += 1
        out = self.data[self.pos:self.pos + want]
        self.pos += len(out)
        return out


def observe(source):
    """what a caller can see: the token stream with values and marks, or the error"""
    out = []
    try:
        for t in yaml.scan(source, Loader=yaml.SafeLoader):
            out.append((type(t).__name__, getattr(t, 'value', None), t.start_mark.index, t.start_mark.line, t.start_mark.column,
                        t.end_mark.index, t.end_mark.line, t.end_mark.column))
    except yaml.reader.ReaderError as e:
        out.append(('ReaderError', e.position, e.character if isinstance(e.character, int) else ord(e.character), e.encoding, e.reason))
    except yaml.YAMLError as e:
        m = e.problem_mark
        out.append((type(e).__name__, None if m is None else (m.index, m.line, m.column), str(e.problem)))
    return out


def _is_err(x):
    return x[0].endswith('Error')


def same(a, b):
    """equal observations.  When the input is invalid the *error* must be the same; how many
    tokens were handed out before it is not compared beyond prefix consistency (an in-memory str
    is checked for non-printable characters up front, a stream block by block)."""
    if a and b and _is_err(a[-1]) and _is_err(b[-1]):
        if a[-1] != b[-1]:
            return False
        a, b = a[:-1], b[:-1]
        n = min(len(a), len(b))
        a, b = a[:n], b[:n]
    if len(a) != len(b):
        return False
    for x, y in zip(a, b):
        if x != y:
            return False
    return True


def text_stream(s: str, k1: int, k2: int, k3: int) -> str:
    """a text stream whose first reads return k1, k2, k3 characters"""
    try:
        ref = observe(s)
        got = observe(Chunks(s, [k1, k2, k3]))
    except Exception as e:
        not_a_finding(e)
        return fail(P, exc_sig(e), k1=k1)
    reach()
    if not same(ref, got):
        return fail(P, 'TEXT-STREAM differs from the str form', k1=k1, k2=k2)
    return 'ok'


CORPUS = ['a: b\r\nc: d\r\n', 'x\r', '- "a\\\n  b"\n- |\n  lit\n', 'k: \xe9€\U0001f600 v\n', '\x85a b c', '[a, {b: c}]', '? a\n: b\n', "'it''s'\n",
          '\ufeffbom: 1\n', 'a\rb\r\nc', '%YAML 1.1\n--- !!str x\n...\n', 'tab:\tv #c\n', '\U00010000\U0010fffd', 'bad: \x01 here']
ENCS = ['utf-8', 'utf-8-bom', 'utf-16-le', 'utf-16-be']


def encode(text, enc):
    if enc == 'utf-8':
        return text.encode('utf-8')
    if enc == 'utf-8-bom':
        return b'\xef\xbb\xbf' + text.encode('utf-8')
    if enc == 'utf-16-le':
        return codecs.BOM_UTF16_LE + text.encode('utf-16-le')
    return codecs.BOM_UTF16_BE + text.encode('utf-16-be')


def corpus_text(i: int, k1: int, k2: int) -> str:
    doc = pick(i, CORPUS)
    return text_stream(doc, k1, k2, len(doc))


MIX_PRE = ['', 'ab ', '\xe9 ']
MIX_POST = ['', ' cd', ' \xe9', ' \U0001f600']


def mixed(c: str, pre: int, post: int, k1: int, k2: int, as_bytes: bool) -> str:
    """one free character (all code points) between pieces of other character classes (ASCII, Latin-1, BMP, astral),
    delivered as a stream whose first two read sizes are solver variables: a decision the reader takes per piece
    (what counts as printable, how wide a character is) must not depend on what else the piece holds"""
    text = pick(pre, MIX_PRE) + c + pick(post, MIX_POST)
    n = len(text)
    try:
        if as_bytes:
            with standins.swap(yaml.reader, 'codecs', CODECS):
                data = text.encode('utf-8')
                ref = observe(data)
                got = observe(Chunks(data, [k1, k2, len(data)]))
        else:
            ref = observe(text)
            got = observe(Chunks(text, [k1, k2, n]))
    except Exception as ex:
        not_a_finding(ex)
        return fail(P, exc_sig(ex), k1=k1)
    reach()
    if not same(ref, got):
        return fail(P, ('BYTE-STREAM differs from the bytes form' if as_bytes else 'TEXT-STREAM differs from the str form'), k1=k1, k2=k2)
    return 'ok'


def corpus_bytes(i: int, e: int, k1: int, k2: int, k3: int) -> str:
    """corpus document in each encoding: whole bytes and a byte stream with solver-chosen splits
    give what the str gives (marks are character based, so they are comparable)"""
    doc = pick(i, CORPUS)
    enc = pick(e, ENCS)
    data = encode(doc, enc)
    try:
        with standins.swap(yaml.reader, 'codecs', CODECS):
            ref = observe(doc if enc == 'utf-8' else '\ufeff' + doc)
            whole = observe(data)
            got = observe(Chunks(data, [k1, k2, k3]))
    except Exception as ex:
        not_a_finding(ex)
        return fail(P, exc_sig(ex), i=i, e=e)
    reach()
    if not same(whole, got):
        return fail(P, 'BYTE-STREAM differs from the bytes form', i=i, e=e)
    # a ReaderError for a non-printable character reports a character offset for str and bytes alike;
    # tokens and marks must agree between str and bytes
    if not same(ref, whole):
        if not (ref and ref[-1][0] == 'ReaderError' and whole and whole[-1][0] == 'ReaderError' and ref[-1][1] == whole[-1][1] and ref[-1][2] == whole[-1][2]):
            return fail(P, 'BYTES differ from the str form', i=i, e=e)
    return 'ok'


def bad_byte(i: int, e: int, off: int, k1: int, k2: int) -> str:
    """an invalid byte at a solver-chosen offset: reported at the same byte offset however the input is chunked"""
    doc = pick(i, CORPUS[:8])
    enc = pick(e, ENCS)
    data = encode(doc, enc)
    bad = b'\xff' if enc.startswith('utf-8') else b'\x00\xdc' if enc == 'utf-16-le' else b'\xdc\x00'
    pos = 0
    for j in range(len(data) + 1):
        if off == j:
            pos = j
    if enc.startswith('utf-16') and pos % 2 == 1:
        pos -= 1
    if pos < (3 if enc == 'utf-8-bom' else 2 if enc.startswith('utf-16') else 0):
        pos = 3 if enc == 'utf-8-bom' else 2 if enc.startswith('utf-16') else 0
    data = data[:pos] + bad + data[pos:]
    try:
        with standins.swap(yaml.reader, 'codecs', CODECS):
            whole = observe(data)
            got = observe(Chunks(data, [k1, k2, len(data)]))
    except Exception as ex:
        not_a_finding(ex)
        return fail(P, exc_sig(ex), i=i, e=e)
    if whole and whole[-1][0] == 'ReaderError':
        reach()
    if not same(whole, got):
        return fail(P, 'ERROR-POSITION differs between the bytes form and the byte stream', i=i, e=e, off=off)
    return 'ok'


def raw_bytes(b: bytes, k1: int, k2: int) -> str:
    """arbitrary bytes: a byte stream split anywhere behaves as the whole byte string"""
    try:
        with standins.swap(yaml.reader, 'codecs', CODECS):
            whole = observe(b)
            got = observe(Chunks(b, [k1, k2, len(b)]))
    except Exception as ex:
        not_a_finding(ex)
        return fail(P, exc_sig(ex))
    reach()
    if not same(whole, got):
        # an input with two errors: the whole byte string is decoded and checked before anything is
        # scanned (a reader error anywhere wins), a stream reports whatever comes first
        two = bool(whole and got and _is_err(whole[-1]) and _is_err(got[-1]) and whole[-1] != got[-1] and
                   whole[-1][0] == 'ReaderError' and (got[-1][0] != 'ReaderError' or got[-1][1] < whole[-1][1]))
        return fail(P, 'BYTE-STREAM differs from the bytes form', two_errors=two)
    return 'ok'


def refill(which: int, shift: int) -> str:
    """documents whose interesting character straddles the 4096 refill boundary (full-size reads)"""
    pad = 4096 - 4 + shift
    docs = ['# ' + 'x' * pad + '\nk: \U0001f600\r\nv: \xe9\n', '"' + 'a' * pad + '\xe9€\U0001f600 b"\n', '- ' + 'y' * pad + '\r\n- z\r\n']
    doc = pick(which, docs)
    try:
        with standins.swap(yaml.reader, 'codecs', CODECS):
            ref = observe(doc)
            refbom = observe('\ufeff' + doc)
            r8 = observe(Chunks(doc.encode('utf-8'), []))
            r16 = observe(Chunks(codecs.BOM_UTF16_LE + doc.encode('utf-16-le'), []))
            rt = observe(Chunks(doc, []))
    except Exception as ex:
        not_a_finding(ex)
        return fail(P, exc_sig(ex), which=which)
    reach()
    if not (same(ref, r8) and same(refbom, r16) and same(ref, rt)):
        return fail(P, 'REFILL-BOUNDARY a stream read in 4096-unit blocks differs from the str form', which=which, shift=shift)
    return 'ok'


def selftests():
    return [pymodels.selftest_codecs()]


def jobs(tier):
    q = tier == 'quick'
    js = []
    L = 2 if q else 3
    for name, lo, hi in [('lt-sp', 0, 0x21), ('punct', 0x21, 0x30), ('0-Z', 0x30, 0x5b), ('[-del', 0x5b, 0x80), ('high', 0x80, 0x110000)]:
        js.append(Job('text-stream/' + name, text_stream,
                      [lambda s, k1, k2, k3, _lo=lo, _hi=hi: 1 <= len(s) <= L and _lo <= ord(s[0]) < _hi and 1 <= k1 <= L and 1 <= k2 <= L and (k3 == L if q else 1 <= k3 <= L)],
                      budget=200 if q else 1500, bounds='str len<=%d starting in U+%04X..U+%04X through a text stream with %d symbolic read sizes' % (L, lo, hi - 1, 2 if q else 3)))
    for i in range(len(CORPUS)):
        n = len(CORPUS[i])
        js.append(Job('corpus-text/%d' % i, corpus_text, [lambda i, k1, k2, _i=i, _n=n: i == _i and 1 <= k1 <= _n and 1 <= k2 <= _n],
                      budget=200 if q else 900, exhaust=(n <= 16), bounds='corpus document %d (%d chars): every 2-read schedule of a text stream' % (i, n)))
    for i in range(len(CORPUS)):
        for e in range(4):
            n = len(encode(CORPUS[i], ENCS[e]))
            js.append(Job('corpus-bytes/%d/%s' % (i, ENCS[e]), corpus_bytes,
                          [lambda i, e, k1, k2, k3, _i=i, _e=e, _n=n: i == _i and e == _e and 1 <= k1 <= _n and 1 <= k2 <= (_n if not q else 4) and k3 == _n],
                          budget=150 if q else 900, exhaust=False,
                          bounds='corpus document %d in %s (%d bytes): first read of every size, second read %s' % (i, ENCS[e], n, '1..4' if q else 'of every size')))
    for pre in range(len(MIX_PRE)):
        for post in range(len(MIX_POST)):
            for ab in (False, True):
                js.append(Job('mixed/%s/%d%d' % ('bytes' if ab else 'text', pre, post), mixed,
                              [lambda c, pre, post, k1, k2, as_bytes, _p=pre, _q=post, _ab=ab: len(c) == 1 and pre == _p and post == _q and as_bytes == _ab
                               and 1 <= k1 <= 4 and 1 <= k2 <= (2 if q else 4) and (0xd800 > ord(c) or ord(c) > 0xdfff or not _ab)],
                              budget=250 if q else 1500,
                              bounds='one free character (all code points%s) between %r and %r, as a %s stream, first read 1..4, second read 1..%d' % (
                                  ', surrogates excluded' if ab else '', MIX_PRE[pre], MIX_POST[post], 'UTF-8 byte' if ab else 'text', 2 if q else 4)))
    for e in range(4):
        js.append(Job('bad-byte/%s' % ENCS[e], bad_byte,
                      [lambda i, e, off, k1, k2, _e=e: e == _e and 0 <= i < 8 and 0 <= off <= 12 and 1 <= k1 <= 6 and 1 <= k2 <= 6],
                      budget=200 if q else 1200, exhaust=False,
                      bounds='8 corpus documents in %s with an invalid byte at offset 0..12, first two reads of 1..6 bytes' % ENCS[e]))
    BL = 2 if q else 3
    for name, lo, hi in [('ascii', 0, 0x80), ('cont', 0x80, 0xc2), ('lead', 0xc2, 0xf5), ('high', 0xf5, 0x100)]:
        js.append(Job('raw-bytes/' + name, raw_bytes, [lambda b, k1, k2, _lo=lo, _hi=hi: 1 <= len(b) <= BL and _lo <= b[0] < _hi and 1 <= k1 <= BL and (k2 == BL if q else 1 <= k2 <= BL)],
                      budget=250 if q else 1500, bounds='every byte string of len<=%d with b[0] in 0x%02X..0x%02X through a byte stream, symbolic read sizes' % (BL, lo, hi - 1)))
    js.append(Job('refill', refill, [lambda which, shift: 0 <= which <= 2 and 0 <= shift <= (3 if q else 8)], budget=300, exhaust=False,
                  bounds='3 documents whose multi-byte / CR LF sequence straddles the 4096 boundary at %d alignments, as text, UTF-8 and UTF-16 streams' % (4 if q else 9)))
    return js
