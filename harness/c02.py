"""C02 - round trip: what the safe dumpers write, the safe loaders read back (Py leg)."""
import datetime

import yaml
from yaml.nodes import ScalarNode, SequenceNode, MappingNode
from symex.hlib import Job, reach, fail, exc_sig, not_a_finding, pick, CONCRETE
from symex import standins, pymodels
from harness import emitlib
from harness.emitlib import Sink, STYLES, FLOWS, BREAKS

P = 'C02'
T = 'tag:yaml.org,2002:'
FLOATS_AS_REALS = True
ENCODED = ['SafeRepresenter.represent_* / represent_scalar / represent_sequence / represent_mapping', 'Serializer.serialize / serialize_node / anchor_node',
           'Emitter (state machine, analyze_scalar, choose_scalar_style, process_tag, every writer)', 'Reader, Scanner, Parser, Composer, SafeConstructor',
           'through SafeDumper(stream, **options).represent/serialize and yaml.compose / yaml.load(SafeLoader)']
BOUNDS = {'quick': 'str x of len<=2 over all code points placed in 8 contexts (root, sequence item, mapping value, mapping key, nested, shared, deep, key+value) '
                   'x default_style in 5 x default_flow_style in 3 x allow_unicode x width in {2,80}; folding alphabet {a,space,LF} len<=4 with width 1..6; '
                   'container graphs with sharing and cycles over 3 slots; bytes len<=2; ints; option cells (canonical, line_break, indent) with len<=1',
          'thorough': 'len<=3; folding alphabet len<=6; bytes len<=3'}
OUTSIDE = 'C dumper/loader legs and cross-back-end reading; strings longer than the bounds; encoding= (C15); tags=/version= (C12); float text (C08 language queries)'
ASSUMPTIONS = ['M12 (dt-micro cells only): +, -, *, / on floats and int / int round to the nearest binary64 value, ties to even (self-tested against the interpreter); everywhere else floats are exact rationals',
               'the symbolic str is injected as the value of the ScalarNode that SafeDumper.represent_data produced for a placeholder (a real dict cannot hold a symbolic key)',
               'the loaded side is compared at node level (yaml.compose) and, where no symbolic key is involved, at object level (yaml.load)',
               'M2 hex formatting, M3 int(hex), M4e str.encode, M8 base64 models', 'Known finding K4 (UTC offsets with seconds)']

PLACEHOLDER = '\x00PLACEHOLDER\x00'


def dump_with(doc, x, opts):
    """SafeDumper.represent_data on a structure holding a placeholder str, then the symbolic
    string x is put in place of the placeholder text and the real serializer + emitter run."""
    out = Sink()
    d = yaml.SafeDumper(out, **opts)
    try:
        d.open()
        node = d.represent_data(doc)
        seen = set()

        def subst(n):
            if id(n) in seen:
                return
            seen.add(id(n))
            if isinstance(n, ScalarNode):
                if n.value == PLACEHOLDER:
                    n.value = x
            elif isinstance(n, SequenceNode):
                for c in n.value:
                    subst(c)
            else:
                for k, v in n.value:
                    subst(k)
                    subst(v)
        subst(node)
        d.serialize(node)
        d.represented_objects = {}
        d.object_keeper = []
        d.alias_key = None
        d.close()
    finally:
        d.dispose()
    return out.getvalue()


def find_scalars(node, out, seen):
    if id(node) in seen:
        return
    seen.add(id(node))
    if isinstance(node, ScalarNode):
        out.append(node)
    elif isinstance(node, SequenceNode):
        for c in node.value:
            find_scalars(c, out, seen)
    else:
        for k, v in node.value:
            find_scalars(k, out, seen)
            find_scalars(v, out, seen)


CTX_DOCS = [
    lambda p: p,
    lambda p: [p],
    lambda p: {'k': p},
    lambda p: {p: 'v'},
    lambda p: [[p]],
    lambda p: {'k': [p, p]},
    lambda p: {'a': {'b': {'c': p}}},
    lambda p: [{p: [p]}],
]
# index (in document order) of the placeholder scalars among all scalars of the composed document
CTX_POS = [[0], [0], [1], [0], [0], [1, 2], [3], [0, 1]]
CTX_NSCALARS = [1, 1, 2, 2, 1, 3, 4, 2]


def scalar(x: str, ctx: int, style_i: int, flow_i: int, allow_unicode: bool, width: int, canonical: bool, indent: int, break_i: int) -> str:
    opts = dict(default_style=pick(style_i, STYLES), default_flow_style=pick(flow_i, FLOWS), allow_unicode=allow_unicode,
                width=width, canonical=canonical, indent=indent, line_break=pick(break_i, BREAKS))
    doc = pick(ctx, CTX_DOCS)(PLACEHOLDER)
    try:
        text = dump_with(doc, x, opts)
    except Exception as e:
        not_a_finding(e)
        return fail(P, 'dump ' + exc_sig(e), x=x, ctx=ctx)
    try:
        node = yaml.compose(text, Loader=yaml.SafeLoader)
    except yaml.YAMLError as e:
        return fail(P, 'REJECTED safe_load rejects what safe_dump wrote (%s)' % type(e).__name__, x=x, ctx=ctx)
    except Exception as e:
        not_a_finding(e)
        return fail(P, 'load ' + exc_sig(e), x=x, ctx=ctx)
    reach()
    sc = []
    find_scalars(node, sc, set())
    if len(sc) != pick(ctx, CTX_NSCALARS):
        return fail(P, 'STRUCTURE %d scalars read back' % len(sc), x=x, ctx=ctx)
    for pos in pick(ctx, CTX_POS):
        n = sc[pos]
        if n.tag != T + 'str':
            return fail(P, 'TYPE str read back as ' + n.tag, x=x, ctx=ctx)
        if n.value != x:
            return fail(P, 'VALUE str read back differently', x=x, ctx=ctx)
    return 'ok'


FOLD = 'a \n\xe9'      # \xe9 is written as an escape under allow_unicode=False: folds right after an escape


def fold(k0: int, k1: int, k2: int, k3: int, k4: int, k5: int, n: int, style_i: int, width: int, depth: int, indent: int) -> str:
    """longer text over a small alphabet: fold points, more-indented lines, indent vs width"""
    ks = [k0, k1, k2, k3, k4, k5]
    x = ''
    for i in range(6):
        if i < n:
            x += pick(ks[i], FOLD)
    doc = x
    for _ in range(depth):
        doc = {'k': doc}
    opts = dict(default_style=pick(style_i, STYLES), width=width, indent=indent)
    # the emitter's own normalisation, recomputed: when the indentation of the scalar reaches the
    # effective width every writer folds at every opportunity (known finding K7)
    eff_indent = 2
    for i in range(2, 10):
        if indent == i:
            eff_indent = i
    eff_width = width if width > 2 * eff_indent else 80
    deep = depth * eff_indent >= eff_width
    try:
        text = emitlib.dump_to_text(doc, **opts)
        back = yaml.load(text, Loader=yaml.SafeLoader)
    except yaml.YAMLError as e:
        return fail(P, 'REJECTED safe_load rejects what safe_dump wrote', x=x, deep=deep)
    except Exception as e:
        not_a_finding(e)
        return fail(P, 'roundtrip ' + exc_sig(e), x=x)
    reach()
    for _ in range(depth):
        if type(back) is not dict or list(back) != ['k']:
            return fail(P, 'STRUCTURE', x=x, deep=deep)
        back = back['k']
    if type(back) is not str or back != x:
        return fail(P, 'VALUE folded text read back differently', x=x, deep=deep)
    return 'ok'


# ------------------------------------------------------------------ containers: sharing and recursion
def graph(ns: int, k0: int, k1: int, k2: int, a0: int, a1: int, a2: int, b0: int, b1: int, b2: int, flow_i: int) -> str:
    """container slots whose child pointers are symbolic (a slot may point to any slot, itself
    included); kinds list / dict; the reloaded graph must be isomorphic with identity classes"""
    kinds, A, B = [k0, k1, k2], [a0, a1, a2], [b0, b1, b2]
    objs = []
    for i in range(3):
        objs.append([] if kinds[i] == 0 else {})

    OMIT = object()

    def ptr(p):
        for i in range(ns):
            if p == i:
                return objs[i]
        if p == ns:
            return 'leaf'
        return OMIT            # no child here: containers may be empty, and an empty one may be shared
    for i in range(ns):
        a, b = ptr(A[i]), ptr(B[i])
        if kinds[i] == 0:
            if a is not OMIT:
                objs[i].append(a)
            if b is not OMIT:
                objs[i].append(b)
        else:
            if a is not OMIT:
                objs[i]['x'] = a
            if b is not OMIT:
                objs[i]['y'] = b
    root = objs[0]
    try:
        text = emitlib.dump_to_text(root, default_flow_style=pick(flow_i, FLOWS))
        back = yaml.load(text, Loader=yaml.SafeLoader)
    except yaml.YAMLError as e:
        return fail(P, 'REJECTED safe_load rejects what safe_dump wrote', ns=ns)
    except Exception as e:
        not_a_finding(e)
        return fail(P, 'roundtrip ' + exc_sig(e), ns=ns)
    reach()
    from harness.c13 import iso
    if not iso(back, root, {}, {}):
        return fail(P, 'GRAPH sharing / recursion structure not preserved', ns=ns)
    return 'ok'


LONG_CHARS = ['a', '\xe9', '\U0001f600', '\x01', "'", '"', ' a']


def long_key(ci: int, n: int, allow_unicode: bool, flow_i: int) -> str:
    """mapping keys whose length n is a solver variable around the emitter's simple-key limit (128
    characters of text) and the scanner's (1024 characters as written): what safe_dump writes must load"""
    ch = pick(ci, LONG_CHARS)
    m = None
    for i in range(90, 140):
        if n == i:
            m = i
    if m is None:
        return 'ok'
    key = (ch * m)[:m]
    doc = {key: 1}
    written = (10 if ch == '\U0001f600' else 4 if ch in ('\xe9', '\x01') else 2 if ch in ("'", '"') else 1) * m
    over = (not allow_unicode or ch == '\x01') and m < 128 and written > 1000
    try:
        text = emitlib.dump_to_text(doc, allow_unicode=allow_unicode, default_flow_style=pick(flow_i, FLOWS))
        back = yaml.load(text, Loader=yaml.SafeLoader)
    except yaml.YAMLError as e:
        return fail(P, 'REJECTED safe_load rejects what safe_dump wrote', long_key_over=over, ci=ci)
    except Exception as e:
        not_a_finding(e)
        return fail(P, 'roundtrip ' + exc_sig(e), ci=ci)
    reach()
    if back != doc:
        return fail(P, 'VALUE long key read back differently', ci=ci)
    return 'ok'


def binary(b: bytes, ctx: int, flow_i: int) -> str:
    doc = b if ctx == 0 else [b] if ctx == 1 else {'k': b}
    try:
        with standins.swap(yaml.representer, 'base64', standins.B64), standins.swap(yaml.constructor, 'base64', standins.B64):
            text = emitlib.dump_to_text(doc, default_flow_style=pick(flow_i, FLOWS))
            back = yaml.load(text, Loader=yaml.SafeLoader)
    except yaml.YAMLError as e:
        return fail(P, 'REJECTED safe_load rejects what safe_dump wrote', ctx=ctx)
    except Exception as e:
        not_a_finding(e)
        return fail(P, 'roundtrip ' + exc_sig(e), ctx=ctx)
    reach()
    got = back if ctx == 0 else back[0] if ctx == 1 else back['k']
    if type(got) is not bytes or got != b:
        return fail(P, 'VALUE bytes read back differently', ctx=ctx)
    return 'ok'


def integer(n: int, ctx: int, style_i: int) -> str:
    doc = n if ctx == 0 else [n] if ctx == 1 else {'k': n}
    try:
        text = emitlib.dump_to_text(doc, default_style=pick(style_i, STYLES))
        back = yaml.load(text, Loader=yaml.SafeLoader)
    except yaml.YAMLError as e:
        return fail(P, 'REJECTED', ctx=ctx)
    except Exception as e:
        not_a_finding(e)
        return fail(P, 'roundtrip ' + exc_sig(e), ctx=ctx)
    reach()
    got = back if ctx == 0 else back[0] if ctx == 1 else back['k']
    if type(got) is not int or got != n:
        return fail(P, 'VALUE int read back differently', ctx=ctx)
    return 'ok'


def int_digit_limit(n: int, neg: bool) -> str:
    """ints around the interpreter's limit for int <-> str conversion (4300 digits): digit count = solver variable"""
    for i in range(4296, 4306):
        if n == i:
            v = -(10 ** (i - 1)) if neg else 10 ** (i - 1)
            try:
                back = yaml.safe_load(yaml.safe_dump(v))
            except yaml.YAMLError:
                return fail(P, 'REJECTED', n=v)
            except Exception as e:
                not_a_finding(e)
                return fail(P, 'roundtrip ' + exc_sig(e), n=v)
            reach()
            if type(back) is not int or back != v:
                return fail(P, 'VALUE int read back differently', n=v)
            return 'ok'
    return 'ok'


CONSTS = [None, True, False, 0.0, -0.0, 1.5, 1e17, 1e-7, float('inf'), float('-inf'), float('nan'), 123456789.123456789,
          datetime.date(2001, 12, 14), datetime.datetime(2001, 12, 14, 21, 59, 43, 100000),
          datetime.datetime(2001, 12, 14, 21, 59, 43, tzinfo=datetime.timezone.utc),
          datetime.datetime(1, 1, 1, 0, 0, 0, 1, tzinfo=datetime.timezone(datetime.timedelta(hours=-5, minutes=-30))),
          set(), {1, 2}, (), [], {}, '', b'', {'a': None, 'b': [True, {1.5: 'x'}]}]


def consts(k: int, style_i: int, flow_i: int, canonical: bool) -> str:
    """values outside the symbolic domains (floats, dates, sets, empties): concrete round trips over the option block"""
    v = pick(k, CONSTS)
    try:
        text = emitlib.dump_to_text(v, default_style=pick(style_i, STYLES), default_flow_style=pick(flow_i, FLOWS), canonical=canonical)
        back = yaml.load(text, Loader=yaml.SafeLoader)
    except yaml.YAMLError as e:
        return fail(P, 'REJECTED', k=k)
    except Exception as e:
        not_a_finding(e)
        return fail(P, 'roundtrip ' + exc_sig(e), k=k)
    reach()
    if type(back) is not type(v):
        if not (type(v) is tuple and type(back) is list):     # the safe dumper writes tuples as sequences (documented)
            return fail(P, 'TYPE %s read back as %s' % (type(v).__name__, type(back).__name__), k=k)
    same = back == v or (v != v and back != back) or (type(v) is tuple and list(v) == back)
    if not same:
        return fail(P, 'VALUE differs', k=k)
    if type(v) is float and v == 0.0 and str(v) != str(back):
        return fail(P, 'VALUE sign of zero lost', k=k)
    if isinstance(v, datetime.datetime) and v.utcoffset() != back.utcoffset():
        return fail(P, 'VALUE utc offset differs', k=k)
    return 'ok'


from harness.c08 import dt_offset_roundtrip as _dt


def dt_offset_roundtrip(offset_seconds: int) -> str:
    r = _dt(offset_seconds)
    if r != 'ok' and not r.startswith('known:'):
        return fail(P, r, offset_seconds=offset_seconds)
    return r


def dt_offsets(h: int, neg: bool) -> str:
    for i in range(24):          # the hour is the solver variable; minutes are swept concretely
        if h == i:
            for m in (0, 1, 29, 30, 45, 59):
                off = (i * 60 + m) * 60
                r = dt_offset_roundtrip(-off if neg else off)
                if r != 'ok':
                    return r
            reach()
            return 'ok'
    return 'ok'


def dt_micro(d0: int, d1: int, d2: int, d3: int, d4: int, d5: int, tz: int) -> str:
    """load half of the datetime round trip with every microsecond value: the text is what
    represent_datetime writes (isoformat: six fraction digits, here six solver variables), read
    with binary64 rounding switched on (model M12).  The dump half (int -> digits) is swept by
    dt_micro_dump: formatting an int makes CrossHair enumerate its values."""
    us = ((((d0 * 10 + d1) * 10 + d2) * 10 + d3) * 10 + d4) * 10 + d5
    off = None if tz == 0 else datetime.timedelta(0) if tz == 1 else datetime.timedelta(hours=-5, minutes=-30)
    text = '2001-12-14 21:59:43.' + chr(48 + d0) + chr(48 + d1) + chr(48 + d2) + chr(48 + d3) + chr(48 + d4) + chr(48 + d5)
    text += '' if tz == 0 else '+00:00' if tz == 1 else '-05:30'
    try:
        loader = yaml.SafeLoader('')
        tag = loader.resolve(ScalarNode, text, (True, False))
        back = loader.construct_document(ScalarNode(tag, text))
    except yaml.YAMLError:
        return fail(P, 'REJECTED', tz=tz)
    except Exception as e:
        not_a_finding(e)
        return fail(P, 'roundtrip ' + exc_sig(e), tz=tz)
    reach()
    if not isinstance(back, datetime.datetime):
        return fail(P, 'TYPE datetime read back as %s' % type(back).__name__, tz=tz)
    # field by field (== and utcoffset() of an aware datetime hand the datetime to tzinfo code, which makes the engine enumerate)
    if back.microsecond != us or (back.year, back.month, back.day, back.hour, back.minute, back.second) != (2001, 12, 14, 21, 59, 43):
        return fail(P, 'VALUE datetime read back differently', tz=tz)
    if (back.tzinfo is None) != (tz == 0) or (tz != 0 and back.tzinfo.utcoffset(None) != off):
        return fail(P, 'VALUE utc offset differs', tz=tz)
    return 'ok'


def dt_micro_dump(us: int, tz: int) -> str:
    """dump half: represent_datetime writes the isoformat text dt_micro starts from"""
    off = None if tz == 0 else datetime.timedelta(0) if tz == 1 else datetime.timedelta(hours=-5, minutes=-30)
    x = datetime.datetime(2001, 12, 14, 21, 59, 43, us, tzinfo=None if off is None else datetime.timezone(off))
    try:
        node = yaml.SafeDumper(None).represent_data(x)
    except Exception as e:
        not_a_finding(e)
        return fail(P, 'represent ' + exc_sig(e), tz=tz)
    reach()
    want = '2001-12-14 21:59:43' + ('.%06d' % us if us else '') + ('' if tz == 0 else '+00:00' if tz == 1 else '-05:30')
    if node.tag != 'tag:yaml.org,2002:timestamp' or node.value != want:
        return fail(P, 'VALUE datetime written as %r' % (node.value,), tz=tz)
    return 'ok'


def selftests():
    from symex import models
    return [pymodels.selftest_b64(), pymodels.selftest_codecs(), models.selftest_rnd64()]


FIRST = [('ctl', 0, 0x20), ('sp-/', 0x20, 0x30), ('0-@', 0x30, 0x41), ('A-`', 0x41, 0x61), ('a-del', 0x61, 0x80), ('c1', 0x80, 0xa0),
         ('bmp', 0xa0, 0x2028), ('ls-bom', 0x2028, 0xff00), ('high', 0xff00, 0x110000)]

# representatives of every character class the emitter / scanner distinguish
ALPHA = ['a', '0', ' ', '\n', '\r', '\t', '\x85', '\u2028', '\ufeff', '\x01', '\xe9', '\U0001f600', ':', '#', '-', '?', ',', '[', '{',
         '&', '*', '!', '|', '>', "'", '"', '%', '@', '`', '~', '\\', '=', '<', '.']


def alpha(i0: int, i1: int, i2: int, n: int, ctx: int, style_i: int, flow_i: int, allow_unicode: bool, width: int) -> str:
    """strings over the class-representative alphabet (each character chosen by a solver variable)"""
    x = ''
    ii = [i0, i1, i2]
    for k in range(3):
        if k < n:
            x += pick(ii[k], ALPHA)
    return scalar(x, ctx, style_i, flow_i, allow_unicode, width, False, 2, 0)


def jobs(tier):
    q = tier == 'quick'
    js = []
    NA = len(ALPHA)
    # (1) one free character over the whole code-point range, every context and style
    for ctx in ((0, 3) if q else range(8)):
        for st in range(5):
            for au in (False, True):
                js.append(Job('char/ctx%d/style%d/%s' % (ctx, st, 'unicode' if au else 'ascii'), scalar,
                              [lambda x, ctx, style_i, flow_i, allow_unicode, width, canonical, indent, break_i, _c=ctx, _s=st, _au=au:
                               ctx == _c and style_i == _s and (flow_i == 0 if q else 0 <= flow_i <= 2) and width == 80 and not canonical and indent == 2 and
                               break_i == 0 and len(x) <= 1 and allow_unicode == _au],
                              budget=200 if q else 900,
                              bounds='str of len<=1 over all code points, context %d, default_style %r, allow_unicode=%r' % (ctx, STYLES[st], au)))
    # (2) option cells on one free character: canonical, line_break, indent, narrow width
    for st in (0, 3):
        js.append(Job('char-options/style%d' % st, scalar,
                      [lambda x, ctx, style_i, flow_i, allow_unicode, width, canonical, indent, break_i, _s=st:
                       ctx == 2 and style_i == _s and flow_i == 0 and (width == 2 or width == 80) and (indent == 1 or indent == 4 or indent == 12) and
                       0 <= break_i <= 3 and allow_unicode and len(x) <= 1],
                      budget=60 if q else 1200, exhaust=not q,
                      bounds='str of len<=1, mapping value, style %r x canonical x width {2,80} x indent {1,4,12} x 4 line breaks' % (STYLES[st],)))
    # (3) two / three characters over the class-representative alphabet
    AN = 2 if q else 3
    for a in range(NA):
        js.append(Job('alpha/first=%r' % ALPHA[a], alpha,
                      [lambda i0, i1, i2, n, ctx, style_i, flow_i, allow_unicode, width, _a=a:
                       i0 == _a and 0 <= i1 < NA and 0 <= i2 < NA and n == AN and (ctx == 0 or ctx == 3) and
                       0 <= style_i <= 4 and flow_i == 0 and width == 80],
                      budget=200 if q else 1500, exhaust=q,
                      bounds='strings of len %d over a %d-character class alphabet starting with %r, root and key contexts, allow_unicode both' % (AN, NA, ALPHA[a])))
    # (4) two free characters over all code points (thorough only; bug hunting)
    if not q:
        for ctx in (0, 3):
            for st in range(5):
                for name, lo, hi in FIRST:
                    js.append(Job('scalar2/ctx%d/style%d/%s' % (ctx, st, name), scalar,
                                  [lambda x, ctx, style_i, flow_i, allow_unicode, width, canonical, indent, break_i, _c=ctx, _s=st, _lo=lo, _hi=hi:
                                   ctx == _c and style_i == _s and flow_i == 0 and width == 80 and not canonical and indent == 2 and
                                   break_i == 0 and len(x) == 2 and _lo <= ord(x[0]) < _hi],
                                  budget=300, exhaust=False,
                                  bounds='str of len 2 over all code points starting in U+%04X..U+%04X, context %d, style %r' % (lo, hi - 1, ctx, STYLES[st])))
    # (5) folding and indentation depth
    # (the emitter honours a requested width only when it exceeds twice the indent: 5 is the smallest effective one)
    FN = 5 if q else 6
    for st in range(5):
        for k in range(4):
            js.append(Job('fold/style%d/first=%r' % (st, FOLD[k]), fold,
                          [lambda k0, k1, k2, k3, k4, k5, n, style_i, width, depth, indent, _s=st, _k=k:
                           style_i == _s and k0 == _k and n == FN and 0 <= k1 <= 3 and 0 <= k2 <= 3 and 0 <= k3 <= 3 and 0 <= k4 <= 3 and
                           0 <= k5 <= (3 if FN == 6 else 0) and (width == 5 if q else 5 <= width <= 7) and (0 <= depth <= 1 if q else 0 <= depth <= 3) and
                           (indent == 2 if q else 1 <= indent <= 3)],
                          budget=200 if q else 1800, exhaust=q,
                          bounds='text of len %d over {a, space, LF, e-acute} starting with %r, style %r, width %s, nesting depth %s' % (
                              FN, FOLD[k], STYLES[st], '5' if q else '5..7', '0..1' if q else '0..3')))
    # (5b) key length as a solver variable (thorough only: every path scans ~1000 characters)
    if not q:
        for ci in range(len(LONG_CHARS)):
            js.append(Job('long-key/%r' % LONG_CHARS[ci], long_key,
                          [lambda ci, n, allow_unicode, flow_i, _c=ci: ci == _c and 90 <= n < 140 and (flow_i == 0 or flow_i == 1)],
                          budget=900, exhaust=False,
                          bounds='a mapping key made of %r repeated n times, 90 <= n < 140, allow_unicode both, block and flow style' % LONG_CHARS[ci]))
    else:
        js.append(Job('long-key', long_key,
                      [lambda ci, n, allow_unicode, flow_i: 0 <= ci < len(LONG_CHARS) and (n == 104 or n == 127 or n == 128 or n == 129) and flow_i == 0],
                      budget=200, bounds='a mapping key made of one of %d characters repeated n times, n in {104, 127, 128, 129}, allow_unicode both' % len(LONG_CHARS)))
    # (6) containers: sharing and recursion
    NS = 2 if q else 3
    js.append(Job('graph', graph, [lambda ns, k0, k1, k2, a0, a1, a2, b0, b1, b2, flow_i: ns == NS and 0 <= k0 <= 1 and 0 <= k1 <= 1 and 0 <= k2 <= 1 and
                                   0 <= a0 <= NS + 1 and 0 <= a1 <= NS + 1 and 0 <= a2 <= NS + 1 and 0 <= b0 <= NS + 1 and 0 <= b1 <= NS + 1 and 0 <= b2 <= NS + 1 and
                                   (flow_i == 0 if q else 0 <= flow_i <= 2)],
                  budget=200 if q else 1800, bounds='list/dict graphs over %d slots with arbitrary child pointers (child = any slot, a leaf, or absent: empty and shared-empty containers included)' % NS))
    # (7) bytes, ints, constants, UTC offsets
    BL = 1 if q else 2
    js.append(Job('binary', binary, [lambda b, ctx, flow_i: len(b) <= BL and 0 <= ctx <= 2 and flow_i == 0], budget=200 if q else 1500,
                  bounds='bytes of len<=%d through !!binary (base64 models), 3 contexts' % BL))
    for t in range(3):
        js.append(Job('dt-micro/tz%d' % t, dt_micro, [lambda d0, d1, d2, d3, d4, d5, tz, _t=t: 0 <= d0 <= 9 and 0 <= d1 <= 9 and 0 <= d2 <= 9 and 0 <= d3 <= 9 and
                                                       0 <= d4 <= 9 and 0 <= d5 <= 9 and tz == _t], budget=200 if q else 900, ieee=True, per_path_timeout=20,
                      bounds='datetime with every microsecond value (six digit variables), %s: isoformat text -> resolve -> construct, float arithmetic rounded to binary64 (M12)' % ['naive', 'UTC', '-05:30'][t]))
    js.append(Job('dt-micro-dump', dt_micro_dump, [lambda us, tz: 0 <= us <= 999999 and 0 <= tz <= 2], budget=40 if q else 600, exhaust=False,
                  bounds='represent_datetime on microsecond values (formatting an int enumerates: bug-hunting only)'))
    js.append(Job('int-digit-limit', int_digit_limit, [lambda n, neg: 4296 <= n <= 4305], budget=100,
                  bounds='ints of 4296..4305 decimal digits (digit count = solver variable), both signs: safe_dump -> safe_load'))
    js.append(Job('integer', integer, [lambda n, ctx, style_i: 0 <= n < 10 ** 6 and 0 <= ctx <= 2 and 0 <= style_i <= 4], budget=60 if q else 1500,
                  exhaust=False, bounds='ints 0 <= n < 10^6, 3 contexts, 5 styles'))
    js.append(Job('consts', consts, [lambda k, style_i, flow_i, canonical: 0 <= k < len(CONSTS) and 0 <= style_i <= 4 and 0 <= flow_i <= 2],
                  budget=200, bounds='%d constants (None, bools, floats incl. inf/nan/-0.0, dates, datetimes, sets, empties) x 5 styles x 3 flow styles x canonical' % len(CONSTS)))
    js.append(Job('utc-offsets', dt_offsets, [lambda h, neg: 0 <= h <= 23], budget=200,
                  bounds='datetimes with UTC offsets of every hour x minutes {0,1,29,30,45,59}, both signs'))
    return js
