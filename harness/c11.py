"""C11 - every call and every document stands alone (Py leg)."""
import types

import yaml
import yaml.parser
import yaml.emitter
from yaml.tokens import *    # noqa
from yaml.events import *    # noqa
from yaml.nodes import ScalarNode, SequenceNode, MappingNode
from yaml.error import Mark
from yaml.parser import Parser, ParserError
from symex.hlib import Job, reach, fail, exc_sig, not_a_finding, pick, untraced
from harness.emitlib import Sink
from harness.c13 import StubLoader

P = 'C11'
T = 'tag:yaml.org,2002:'
ENCODED = ['Parser.parse_implicit_document_start / parse_document_start / process_directives', 'Composer.compose_document', 'BaseConstructor.construct_document',
           'BaseRepresenter.represent', 'Serializer.serialize', 'Emitter.expect_document_start (tag_prefixes)',
           'yaml.scan / parse / compose_all / load_all / safe_load / emit / dump (global-state snapshot around every explored call)']
BOUNDS = {'quick': 'parser: pre-state of tag_handles in {empty, the DEFAULT_TAGS object, foreign handles} x yaml_version x <=2 directive tokens of 5 kinds x explicit/implicit '
                   'document; composer / constructor / representer / serializer / emitter: arbitrary pre-state from a table, one document; global snapshot around '
                   'load/scan/parse/compose/dump/emit of every str of len<=1 and of a 12-document corpus (errors included); two-document streams over a 12-document corpus (all ordered pairs)',
          'thorough': 'global snapshot with len<=2'}
OUTSIDE = 'C classes internal state (libyaml parser/emitter objects)'
ASSUMPTIONS = ['the token / event sources of the one-step harnesses are stubs', 'the global snapshot covers every dict/list/set attribute of the modules and classes of the yaml package']


# ------------------------------------------------------------------ global snapshot
def _freeze(v, depth=0):
    if depth > 4:
        return ('...',)
    if isinstance(v, dict):
        return ('dict', id(v), tuple((repr(k), _freeze(x, depth + 1)) for k, x in v.items()))
    if isinstance(v, (list, tuple)):
        return (type(v).__name__, id(v) if isinstance(v, list) else 0, tuple(_freeze(x, depth + 1) for x in v))
    if isinstance(v, (set, frozenset)):
        return ('set', tuple(sorted(repr(x) for x in v)))
    if isinstance(v, (str, int, float, bool, type(None), bytes)):
        return v
    return ('obj', id(v))


def global_snapshot():
    snap = {}
    seen = set()
    for mname in ('yaml', 'yaml.reader', 'yaml.scanner', 'yaml.parser', 'yaml.composer', 'yaml.constructor', 'yaml.resolver', 'yaml.representer',
                  'yaml.serializer', 'yaml.emitter', 'yaml.loader', 'yaml.dumper', 'yaml.cyaml', 'yaml.nodes', 'yaml.events', 'yaml.tokens', 'yaml.error'):
        import sys
        mod = sys.modules[mname]
        for name, v in list(vars(mod).items()):
            if name.startswith('__'):
                continue
            if isinstance(v, (dict, list, set)):
                snap[(mname, name)] = _freeze(v)
            elif isinstance(v, type) and v.__module__.startswith('yaml') and id(v) not in seen:
                seen.add(id(v))
                for an, av in list(vars(v).items()):
                    if isinstance(av, (dict, list, set)):
                        snap[(v.__module__, v.__name__, an)] = _freeze(av)
    return snap


def diff_snapshot(a, b):
    for k in a:
        if k not in b:
            return 'removed %r' % (k,)
        if a[k] != b[k]:
            return 'changed %s' % '.'.join(map(str, k))
    for k in b:
        if k not in a:
            return 'added %s' % '.'.join(map(str, k))
    return None


def calls_corpus(i: int, which: int) -> str:
    """the same over the corpus documents (directives, anchors, tags, errors) and their two-document streams"""
    n = len(CORPUS)
    for a in range(n):
        if i == a:
            return calls(CORPUS[a], which)
    for a in range(n):
        if i == n + a:
            return calls('--- ' + CORPUS[a] + '\n--- ' + CORPUS[(a * 5 + 3) % n] + '\n', which)
    return 'ok'


class UserBase(object):
    def __init__(self, v=None):
        self.v = v


class UserSub(UserBase):
    pass


class UserDict(dict):
    pass


class MultiDumper(yaml.SafeDumper):
    """a dumper subclass with one multi-representer of its own (registered once, at import: part of the baseline)"""


MultiDumper.add_multi_representer(UserBase, lambda dumper, data: dumper.represent_scalar('!base', str(data.v)))


def calls(s: str, which: int) -> str:
    """no API call changes library-global state, whatever the input (error paths included)"""
    with untraced():
        before = global_snapshot()
    try:
        if which == 0:
            list(yaml.safe_load_all(s))
        elif which == 1:
            list(yaml.scan(s))
        elif which == 2:
            list(yaml.parse(s))
        elif which == 3:
            list(yaml.compose_all(s))
        elif which == 4:
            yaml.full_load(s)
        elif which == 5:
            out = Sink()
            yaml.safe_dump([s, {'k': s}], out, explicit_start=True, version=(1, 1), tags={'!e!': 'tag:e,2000:'})
        elif which == 6:
            out = Sink()
            yaml.emit([StreamStartEvent(), DocumentStartEvent(tags={'!e!': 'tag:e,2000:'}), ScalarEvent(None, 'tag:e,2000:x', (False, False), s),
                       DocumentEndEvent(), StreamEndEvent()], out)
        elif which == 7:
            out = Sink()
            yaml.dump(s, out, Dumper=yaml.Dumper)
        elif which == 8:
            # user objects through the shipped Dumper (dispatch through the multi-representer of `object`)
            out = Sink()
            yaml.dump([UserSub(s), UserDict(k=s), UserBase], out, Dumper=yaml.Dumper)
        elif which == 9:
            out = Sink()
            yaml.dump({'o': UserSub(s), 'p': UserBase(1)}, out, Dumper=MultiDumper)
        else:
            # objects built by the trusted loader (python/object tags: dispatch through multi-constructors)
            yaml.load('- !!python/object:harness.c11.UserSub {v: 1}\n- !!python/object/apply:harness.c11.UserBase [2]\n- ' + s, Loader=yaml.UnsafeLoader)
    except yaml.YAMLError:
        reach()
    except Exception as e:
        not_a_finding(e)       # the exception class is C03's / C01's subject; here only the state matters
    with untraced():
        after = global_snapshot()
        d = diff_snapshot(before, after)
    if d:
        return fail(P, 'GLOBAL-STATE ' + d, which=which)
    reach()
    return 'ok'


# ------------------------------------------------------------------ parser: one document from an arbitrary pre-state
def _m(i):
    return Mark('x', i, 0, i, None, None)


class TokParser(Parser):
    def __init__(self, toks):
        Parser.__init__(self)
        self.toks = toks

    def check_token(self, *choices):
        if self.toks:
            if not choices:
                return True
            for c in choices:
                if isinstance(self.toks[0], c):
                    return True
        return False

    def peek_token(self):
        return self.toks[0] if self.toks else None

    def get_token(self):
        return self.toks.pop(0) if self.toks else None


DIRS = [('YAML', (1, 1)), ('TAG', ('!e!', 'tag:e,2000:')), ('TAG', ('!f!', 'tag:f,2000:')), ('TAG', ('!', '!my-')), ('TAG', ('!!', 'tag:my,2000:'))]


def parser_reset(pre: int, ver: bool, nd: int, d0: int, d1: int, explicit: bool) -> str:
    defaults_before = dict(Parser.DEFAULT_TAGS)
    toks = []
    want = {}
    want_ver = None
    dup = False
    if explicit:
        for k in [d0, d1][:nd]:
            name, val = pick(k, DIRS)
            toks.append(DirectiveToken(name, val, _m(0), _m(1)))
            if name == 'YAML':
                if want_ver is not None:
                    dup = True
                want_ver = val
            else:
                if val[0] in want:
                    dup = True
                want[val[0]] = val[1]
        toks.append(DocumentStartToken(_m(2), _m(3)))
    toks += [ScalarToken('v', True, _m(4), _m(5)), StreamEndToken(_m(6), _m(6))]
    p = TokParser(toks)
    p.state = p.parse_implicit_document_start
    if pre == 1:
        p.tag_handles = Parser.DEFAULT_TAGS          # what an implicit first document leaves behind
    elif pre == 2:
        p.tag_handles = {'!old!': 'tag:old,2000:', '!': '!stale-'}
    if ver:
        p.yaml_version = (1, 0)
    try:
        ev = p.get_event()
    except ParserError:
        reach()
        if Parser.DEFAULT_TAGS != defaults_before:
            return 'DEFAULT_TAGS mutated on the error path'
        return 'ok' if dup else fail(P, 'REJECTED well-formed directives', pre=pre)
    except Exception as e:
        not_a_finding(e)
        return fail(P, exc_sig(e), pre=pre)
    finally:
        leaked = Parser.DEFAULT_TAGS != defaults_before
        Parser.DEFAULT_TAGS.clear()
        Parser.DEFAULT_TAGS.update(defaults_before)
    if leaked:
        return fail(P, 'DEFAULT_TAGS the class-level default handle table was mutated', pre=pre)
    if dup:
        return fail(P, 'ACCEPTED duplicate directive', pre=pre)
    reach()
    exp = dict(defaults_before)
    exp.update(want)
    if p.tag_handles != exp:
        return fail(P, 'TAG-HANDLES of the new document are not directives + defaults (pre-state leaked)', pre=pre)
    if explicit and p.tag_handles is Parser.DEFAULT_TAGS:
        return fail(P, 'TAG-HANDLES of an explicit document alias the class-level table', pre=pre)
    if explicit and p.yaml_version != want_ver:
        return fail(P, 'YAML-VERSION of the previous document survived', pre=pre)
    if ev.version != (want_ver if explicit else None) or (ev.tags or {}) != (want if explicit else {}):
        return fail(P, 'EVENT directives on the DocumentStartEvent differ', pre=pre)
    return 'ok'


# ------------------------------------------------------------------ composer / constructor / representer / serializer / emitter
def stage_reset(stage: int, pre: int) -> str:
    junk_node = ScalarNode(T + 'str', 'junk')
    if stage == 0:
        ld = StubLoader([DocumentStartEvent(), SequenceStartEvent('a', None, True), ScalarEvent('b', None, (True, False), 'v'), SequenceEndEvent(),
                         DocumentEndEvent(), StreamEndEvent()])
        if pre:
            ld.anchors = {'zz': junk_node, 'b2': junk_node}
        ld.compose_document()
        reach()
        return 'ok' if ld.anchors == {} else fail(P, 'COMPOSER anchors survive the document', pre=pre)
    if stage == 1:
        ld = yaml.SafeLoader('')
        if pre:
            ld.constructed_objects = {junk_node: 'junk'}
            ld.deep_construct = True if pre == 2 else False
        n = SequenceNode(T + 'seq', [ScalarNode(T + 'str', 'a'), MappingNode(T + 'map', [])])
        ld.construct_document(n)
        reach()
        if ld.constructed_objects or ld.recursive_objects or ld.state_generators or ld.deep_construct:
            return fail(P, 'CONSTRUCTOR per-document state not reset', pre=pre)
        return 'ok'
    if stage == 2:
        out = Sink()
        d = yaml.SafeDumper(out)
        d.open()
        shared = [1]
        if pre:
            d.represented_objects = {id(shared): junk_node}
            d.object_keeper = [shared]
        d.represent([shared, shared])
        reach()
        if d.represented_objects or d.object_keeper or d.alias_key is not None:
            return fail(P, 'REPRESENTER per-document state not reset', pre=pre)
        if d.serialized_nodes or d.anchors or d.last_anchor_id != 0:
            return fail(P, 'SERIALIZER per-document state not reset', pre=pre)
        d.represent([shared, shared])
        d.close()
        docs = out.getvalue().split('---')
        text = out.getvalue()
        if text.count('&id001') != 2 or '&id002' in text:
            return fail(P, 'ANCHOR numbering is not per document', pre=pre)
        return 'ok'
    # emitter: tag prefixes of one document are not visible in the next, defaults untouched
    before = dict(yaml.emitter.Emitter.DEFAULT_TAG_PREFIXES)
    out = Sink()
    evs = [StreamStartEvent(), DocumentStartEvent(explicit=True, tags={'!e!': 'tag:e,2000:'}), ScalarEvent(None, 'tag:e,2000:x', (False, False), 'v'),
           DocumentEndEvent(), DocumentStartEvent(explicit=True), ScalarEvent(None, 'tag:e,2000:x', (False, False), 'v'), DocumentEndEvent(), StreamEndEvent()]
    yaml.emit(evs, out)
    reach()
    if yaml.emitter.Emitter.DEFAULT_TAG_PREFIXES != before:
        return fail(P, 'EMITTER DEFAULT_TAG_PREFIXES mutated', pre=pre)
    text = out.getvalue()
    second = text.split('---')[2]
    if '!e!' in second:
        return fail(P, 'EMITTER tag handle of the first document used in the second', pre=pre)
    return 'ok'


# ------------------------------------------------------------------ a stream is the list of its documents
CORPUS = ['a', '&x 1', '[&x 1, *x]', '%YAML 1.1\n--- 1', '%TAG !e! tag:e,2000:\n--- !e!foo 1', '!e!foo 1', '*x', 'k: &x v\nj: *x', '- x\n- y',
          "'quoted'", '!!str 1', '', '[&x 1, *y]', '- &x 1\n- "open']


def _canon(node, memo=None):
    if memo is None:
        memo = {}
    if id(node) in memo:
        return ('ref', memo[id(node)])
    memo[id(node)] = len(memo)
    if isinstance(node, ScalarNode):
        return ('s', node.tag, node.value)
    if isinstance(node, SequenceNode):
        return ('q', node.tag, tuple(_canon(c, memo) for c in node.value))
    return ('m', node.tag, tuple((_canon(k, memo), _canon(v, memo)) for k, v in node.value))


def _alone(text):
    try:
        n = yaml.compose('--- ' + text if not text.startswith('%') else text, Loader=yaml.SafeLoader)
        return ('ok', _canon(n) if n is not None else None)
    except yaml.YAMLError as e:
        return ('err', type(e).__name__)


def stream(i: int, j: int) -> str:
    d1, d2 = pick(i, CORPUS), pick(j, CORPUS)
    a1, a2 = _alone(d1), _alone(d2)
    sep = lambda t: t if t.startswith('%') else '--- ' + t
    text = sep(d1) + '\n...\n' + sep(d2) + '\n'
    got = []
    err = None
    try:
        for n in yaml.compose_all(text, Loader=yaml.SafeLoader):
            got.append(('ok', _canon(n) if n is not None else None))
    except yaml.YAMLError as e:
        err = type(e).__name__
    except Exception as e:
        not_a_finding(e)
        return fail(P, exc_sig(e), i=i, j=j)
    reach()
    want = []
    for a in (a1, a2):
        if a[0] == 'err':
            want_err = a[1]
            break
        want.append(a)
    else:
        want_err = None
    if got != want or err != want_err:
        return fail(P, 'STREAM of %r and %r is not the list of what each gives alone: %r / %r' % (d1, d2, got, err), i=i, j=j)
    return 'ok'


def after_failure(k: int) -> str:
    """a call that failed half-way leaves the next call unaffected"""
    bad = ['a: [', '%TAG !e! tag:e,2000:\n--- !e!x [', '&a [*a, *b]', '- &a 1\n- "', '!!python/object:os.system {}', '\x00', '&a {k: &b 1, j: [',
           '--- &a 1\n--- &b [*a]']
    ref = yaml.safe_load('- &a [1]\n- *a\n- !!str 2\n')
    ref_dump = yaml.safe_dump(ref)
    try:
        yaml.safe_load(pick(k, bad))
    except yaml.YAMLError:
        reach()
    try:
        again = yaml.safe_load('- &a [1]\n- *a\n- !!str 2\n')
    except Exception as e:
        return fail(P, 'AFTER-FAILURE the next call raises ' + exc_sig(e), k=k)
    if again != ref or again[0] is not again[1] or yaml.safe_dump(again) != ref_dump:
        return fail(P, 'AFTER-FAILURE the next call behaves differently', k=k)
    return 'ok'


def jobs(tier):
    q = tier == 'quick'
    L = 1 if q else 2
    js = []
    for w in range(11):
        js.append(Job('calls/%d' % w, calls, [lambda s, which, _w=w: which == _w and len(s) <= (L if _w in (0, 1, 2, 3) else 1)],
                      budget=200 if q else 1500, bounds='API call %d on every str of len<=%d, global snapshot before/after' % (w, L if w < 4 else 1)))
    js.append(Job('calls-corpus', calls_corpus, [lambda i, which: 0 <= i < 2 * len(CORPUS) and 0 <= which <= 10], budget=200,
                  bounds='11 API calls on %d corpus documents and %d two-document streams, global snapshot before/after' % (len(CORPUS), len(CORPUS))))
    for pre in range(3):
        js.append(Job('parser-reset/pre%d' % pre, parser_reset,
                      [lambda pre, ver, nd, d0, d1, explicit, _p=pre: pre == _p and 0 <= nd <= 2 and 0 <= d0 <= 4 and 0 <= d1 <= 4],
                      budget=120, bounds='pre-state %d x yaml_version x <=2 directives of 5 kinds x explicit/implicit document' % pre))
    js.append(Job('stage-reset', stage_reset, [lambda stage, pre: 0 <= stage <= 3 and 0 <= pre <= 2], budget=120,
                  bounds='composer/constructor/representer+serializer/emitter x 3 pre-states'))
    for i in range(len(CORPUS)):
        js.append(Job('stream/first=%d' % i, stream, [lambda i, j, _i=i: i == _i and 0 <= j < len(CORPUS)], budget=120,
                      bounds='two-document streams: corpus document %d followed by each of %d corpus documents' % (i, len(CORPUS))))
    js.append(Job('after-failure', after_failure, [lambda k: 0 <= k <= 7], budget=60, bounds='8 failing calls, each followed by a reference call'))
    return js
