"""C19 - failures of the caller's stream or callbacks pass through cleanly (Py leg).
The fault point (index of the failing read / write / flush / callback invocation) and the
kind of exception are solver variables."""
import copy
import yaml
import yaml.reader
from symex.hlib import Job, reach, fail, exc_sig, not_a_finding, pick, untraced
from harness.c11 import global_snapshot, diff_snapshot

P = 'C19'
ENCODED = ['yaml.load / load_all / safe_load(_all) / scan / parse / compose_all (try/finally dispose)', 'Reader.update / update_raw / determine_encoding',
           'yaml.dump / dump_all / safe_dump / emit / serialize', 'Emitter.write_* / flush_stream', 'BaseConstructor.construct_object (user constructor)',
           'BaseRepresenter.represent_data (user representer)']
BOUNDS = {'quick': 'loading: 6 documents x {text, UTF-8 bytes, UTF-16 bytes} streams (1-character and 7-character reads) x every index of the read() sequence x 9 exception '
                   'kinds; dumping: 6 values x every index of the write() sequence and the flush() calls x 9 exception kinds; callbacks: every invocation index of a user '
                   'constructor / representer; each followed by a reference call and a global-state comparison',
          'thorough': 'same with 3 read sizes and all options'}
OUTSIDE = 'the "except 0" handlers of the .pyx binding'
ASSUMPTIONS = ['the injected exception is created by the harness; identity (is) is what is compared at the API boundary']


class Private(Exception):
    pass


class PrivateBase(BaseException):
    pass


def make_exc(kind):
    if kind == 0:
        return Private('injected')
    if kind == 1:
        return UnicodeDecodeError('utf-8', b'\xff', 0, 1, 'injected')
    if kind == 2:
        return UnicodeEncodeError('ascii', '\xff', 0, 1, 'injected')
    if kind == 3:
        return OSError(5, 'injected')
    if kind == 4:
        return ValueError('injected')
    if kind == 5:
        # (StopIteration is not used: PEP 479 turns it into RuntimeError inside any generator, a language rule)
        return KeyError('injected')
    if kind == 6:
        return yaml.YAMLError('injected')
    if kind == 7:
        return yaml.reader.ReaderError('x', 0, 0, 'utf-8', 'injected')
    return AttributeError('injected')


NKINDS = 9
DOCS = ['a: 1\nb: [2, 3]\n', '- &a x\n- *a\n--- second\n', 'k: "quoted\\n text"\n', '\xe9: €\n', '# only a comment\n', 'x' * 20 + ': ' + 'y' * 30 + '\n']


class FaultyIn:
    def __init__(self, data, step, fail_at, exc):
        self.data, self.step, self.fail_at, self.exc = data, step, fail_at, exc
        self.pos = 0
        self.calls = 0

    def read(self, n=-1):
        i = self.calls
        self.calls += 1
        if i == self.fail_at:
            raise self.exc
        k = min(self.step, n if n and n > 0 else self.step)
        out = self.data[self.pos:self.pos + k]
        self.pos += len(out)
        return out


def _encode(doc, form):
    if form == 0:
        return doc
    if form == 1:
        return doc.encode('utf-8')
    return b'\xff\xfe' + doc.encode('utf-16-le')


REF_DOC = '- &r [1]\n- *r\n- !!str 2\n'


class PathLoader(yaml.SafeLoader):
    """a loader / dumper pair with path resolvers (their match stacks live between descend and ascend)"""


class PathDumper(yaml.SafeDumper):
    pass


PathLoader.add_path_resolver('!root', [])
PathLoader.add_path_resolver('!item', ['items', None], dict)


def _construct_any(loader, node):
    if isinstance(node, yaml.MappingNode):
        return loader.construct_mapping(node, deep=True)
    if isinstance(node, yaml.SequenceNode):
        return loader.construct_sequence(node, deep=True)
    return loader.construct_scalar(node)


PathLoader.add_constructor('!root', _construct_any)
PathLoader.add_constructor('!item', _construct_any)
PathDumper.add_path_resolver('!root', [])
PathDumper.add_path_resolver('!item', ['items', None], dict)
PATH_DOC = 'items:\n- {a: 1}\n- {b: 2}\nname: x\n'


def _path_reference():
    node = yaml.compose(PATH_DOC, Loader=PathLoader)
    tags = (node.tag, [v.tag for k, v in node.value if k.value == 'items'][0])
    items = [v for k, v in node.value if k.value == 'items'][0]
    out = yaml.serialize(node, Dumper=PathDumper)
    return (node.tag, [x.tag for x in items.value], out)


_PATH_REF = _path_reference()        # taken once, at import, on a fresh library state


def _reference_ok():
    r = yaml.safe_load(REF_DOC)
    if not (r == [[1], [1], '2'] and r[0] is r[1] and yaml.safe_dump(r) == '- &id001\n  - 1\n- *id001\n- \'2\'\n'):
        return False
    return _path_reference() == _PATH_REF


def _read_api(api, stream):
    if api == 0:
        list(yaml.safe_load_all(stream))
    elif api == 1:
        list(yaml.scan(stream))
    elif api == 2:
        list(yaml.parse(stream))
    elif api == 3:
        list(yaml.compose_all(stream))
    elif api == 4:
        yaml.load(stream, Loader=yaml.FullLoader)
    else:
        list(yaml.load_all(stream, Loader=PathLoader))


def read_fault(di: int, form: int, big: bool, k: int, kind: int, api: int) -> str:
    doc = pick(di, DOCS)
    data = _encode(doc, form)
    step = 7 if big else 1
    total = len(data) // step + 3
    exc = make_exc(kind)
    with untraced():
        before = global_snapshot()
    # the fault-free number of reads
    # (of the same API function: yaml.load stops at a second document with its own error)
    probe = FaultyIn(data, step, -1, None)
    try:
        _read_api(api, probe)
    except yaml.YAMLError:
        pass
    nreads = probe.calls
    fail_at = None
    for i in range(total):
        if k == i:
            fail_at = i
    if fail_at is None or fail_at >= nreads:
        return 'ok'
    stream = FaultyIn(data, step, fail_at, exc)
    got = None
    try:
        _read_api(api, stream)
    except BaseException as e:   # noqa
        got = e
    reach()
    if got is None:
        return fail(P, 'SWALLOWED the exception raised by read() number %d never reached the caller' % fail_at, kind=kind)
    if got is not exc:
        return fail(P, 'REWRAPPED read() raised %s, the caller got %s' % (type(exc).__name__, type(got).__name__), kind=kind)
    with untraced():
        d = diff_snapshot(before, global_snapshot())
    if d:
        return fail(P, 'AFTERMATH global state right after the failed call ' + d, kind=kind)
    try:
        if not _reference_ok():
            return fail(P, 'AFTERMATH the next call misbehaves after a failed read', kind=kind)
    except Exception as e:
        return fail(P, 'AFTERMATH the next call raises ' + exc_sig(e), kind=kind)
    with untraced():
        d = diff_snapshot(before, global_snapshot())
    if d:
        return fail(P, 'AFTERMATH global state ' + d, kind=kind)
    return 'ok'


class FaultyOut:
    def __init__(self, fail_write, fail_flush, exc):
        self.fail_write, self.fail_flush, self.exc = fail_write, fail_flush, exc
        self.chunks = []
        self.writes = 0
        self.flushes = 0

    def write(self, data):
        i = self.writes
        self.writes += 1
        if i == self.fail_write:
            raise self.exc
        self.chunks.append(data)

    def flush(self):
        i = self.flushes
        self.flushes += 1
        if i == self.fail_flush:
            raise self.exc

    def text(self):
        return ''.join(self.chunks)


VALUES = [{'items': [1, 2], 'name': 'x'}, ['a', ['b', {'c': None}]], 'plain', {'k': 'multi\nline\n'}, [{'é': 1.5}], 'y' * 100]


def _later(v):
    """the caller goes on working with the value after the failed dump"""
    if isinstance(v, list):
        v.append('added later')
        if v and isinstance(v[0], dict):
            v[0]['added later'] = 1
    elif isinstance(v, dict):
        v['zz added later'] = [3]
        for x in v.values():
            if isinstance(x, list):
                x.append('added later')


def write_fault(vi: int, k: int, on_flush: bool, kind: int, api: int, many: bool) -> str:
    v0 = pick(vi, VALUES)
    with untraced():
        v = copy.deepcopy(v0)       # this path's own objects: they are modified below
    docs = [v, v] if many else [v]
    exc = make_exc(kind)

    def run(out):
        if api == 0:
            yaml.safe_dump_all(docs, out)
        elif api == 1:
            yaml.dump_all(docs, out, default_flow_style=True, explicit_start=True)
        elif api == 2:
            yaml.serialize_all([yaml.compose(yaml.safe_dump(v))] * len(docs), out)
        else:
            yaml.dump_all(docs, out, Dumper=PathDumper)
    with untraced():
        before = global_snapshot()
    ok_out = FaultyOut(-1, -1, None)
    run(ok_out)
    full = ok_out.text()
    limit = ok_out.flushes if on_flush else ok_out.writes
    fail_at = None
    for i in range(limit):
        if k == i:
            fail_at = i
    if fail_at is None:
        return 'ok'
    out = FaultyOut(-1 if on_flush else fail_at, fail_at if on_flush else -1, exc)
    got = None
    try:
        run(out)
    except BaseException as e:   # noqa
        got = e
    reach()
    if got is None:
        return fail(P, 'SWALLOWED the exception raised by the output stream never reached the caller', kind=kind)
    if got is not exc:
        return fail(P, 'REWRAPPED the stream raised %s, the caller got %s' % (type(exc).__name__, type(got).__name__), kind=kind)
    if not full.startswith(out.text()):
        return fail(P, 'PREFIX what was written before the fault is not a prefix of the fault-free output', kind=kind)
    with untraced():
        d = diff_snapshot(before, global_snapshot())
    if d:
        return fail(P, 'AFTERMATH global state right after the failed call ' + d, kind=kind)
    again = FaultyOut(-1, -1, None)
    try:
        run(again)
        if again.text() != full or not _reference_ok():
            return fail(P, 'AFTERMATH the next dump differs after a failed write', kind=kind)
        # the same objects, modified after the failure, are dumped as they are now (nothing remembered from the failed call)
        out2 = FaultyOut(fail_at if not on_flush else -1, fail_at if on_flush else -1, make_exc(kind))
        try:
            run(out2)
        except BaseException:   # noqa
            pass
        _later(v)
        with untraced():
            fresh = copy.deepcopy(v)
        third = FaultyOut(-1, -1, None)
        run(third)
        v = fresh
        docs = [v, v] if many else [v]
        want = FaultyOut(-1, -1, None)
        run(want)
        if third.text() != want.text():
            return fail(P, 'AFTERMATH a value modified after a failed dump is dumped as it was during the failed call', kind=kind)
    except Exception as e:
        return fail(P, 'AFTERMATH the next call raises ' + exc_sig(e), kind=kind)
    with untraced():
        d = diff_snapshot(before, global_snapshot())
    if d:
        return fail(P, 'AFTERMATH global state ' + d, kind=kind)
    return 'ok'


class Boom(object):
    def __init__(self, n):
        self.n = n


class BoomStr(str):
    """a user type that is never anchored (ignore_aliases is true for str / int subclasses)"""
    n = property(lambda self: int(self))


class BoomInt(int):
    n = property(lambda self: int(self))


def callback_fault(k: int, kind: int, side: int) -> str:
    """a user constructor / representer raising at its k-th invocation"""
    exc = make_exc(kind)
    counter = {'n': 0}
    fail_at = None
    for i in range(4):
        if k == i:
            fail_at = i

    class L(yaml.SafeLoader):
        pass

    class D(yaml.SafeDumper):
        pass

    def ctor(loader, node):
        i = counter['n']
        counter['n'] += 1
        if i == fail_at:
            raise exc
        return Boom(loader.construct_scalar(node))

    def repr_(dumper, data):
        i = counter['n']
        counter['n'] += 1
        if i == fail_at:
            raise exc
        return dumper.represent_scalar('!boom', str(data.n))
    L.add_constructor('!boom', ctor)
    D.add_representer(Boom, repr_)
    D.add_representer(BoomStr, repr_)
    D.add_representer(BoomInt, repr_)
    with untraced():
        before = global_snapshot()
    got = None
    out = FaultyOut(-1, -1, None)
    b1 = Boom(1)
    data = [b1, {'k': BoomStr('2')}, [BoomInt(3), Boom(4)], b1]
    try:
        if side == 0:
            yaml.load('- !boom 1\n- {k: !boom 2}\n- [!boom 3, !boom 4]\n', Loader=L)
        else:
            yaml.dump(data, out, Dumper=D)
    except BaseException as e:    # noqa
        got = e
    reach()
    if fail_at is None:
        return 'ok' if got is None else fail(P, 'callback run without fault raised ' + type(got).__name__, kind=kind)
    if got is not exc:
        return fail(P, 'REWRAPPED or swallowed: callback raised %s, the caller got %r' % (type(exc).__name__, type(got).__name__), kind=kind)
    with untraced():
        d = diff_snapshot(before, global_snapshot())
    if d:
        return fail(P, 'AFTERMATH global state right after the failed call ' + d, kind=kind)
    if side == 1:
        # the caller retries with the very same objects (one of them changed in the meantime)
        ok_out = FaultyOut(-1, -1, None)
        counter['n'] = 100
        b1.n = 7
        yaml.dump(data, ok_out, Dumper=D)
        b2 = Boom(7)
        want = FaultyOut(-1, -1, None)
        yaml.dump([b2, {'k': BoomStr('2')}, [BoomInt(3), Boom(4)], b2], want, Dumper=D)
        if ok_out.text() != want.text():
            return fail(P, 'AFTERMATH retrying the dump of the same objects after a failed representer gives another text than dumping equal fresh objects', kind=kind)
        b1.n = 1
        first = FaultyOut(-1, -1, None)
        yaml.dump(data, first, Dumper=D)
        if not first.text().startswith(out.text()):
            return fail(P, 'PREFIX output written before the callback fault is not a prefix of the fault-free output', kind=kind)
    try:
        if not _reference_ok():
            return fail(P, 'AFTERMATH the next call misbehaves after a failed callback', kind=kind)
    except Exception as e:
        return fail(P, 'AFTERMATH the next call raises ' + exc_sig(e), kind=kind)
    with untraced():
        d = diff_snapshot(before, global_snapshot())
    if d:
        return fail(P, 'AFTERMATH global state ' + d, kind=kind)
    return 'ok'


def jobs(tier):
    q = tier == 'quick'
    js = []
    for di in range(len(DOCS)):
        for form in range(3):
            js.append(Job('read/doc%d/form%d' % (di, form), read_fault,
                          [lambda di, form, big, k, kind, api, _d=di, _f=form: di == _d and form == _f and 0 <= k <= 130 and 0 <= kind < NKINDS and
                           ((api == 0 or api == 5) if q else 0 <= api <= 5) and (big if q else True)],
                          budget=250 if q else 1500, exhaust=q,
                          bounds='document %d as %s stream: every read() index x %d exception kinds%s' % (
                              di, ['text', 'UTF-8', 'UTF-16'][form], NKINDS, ' (7-unit reads, safe_load_all)' if q else ' x 2 read sizes x 5 API functions')))
    for a in range(6):
        js.append(Job('read/first-reads/api%d' % a, read_fault,
                      [lambda di, form, big, k, kind, api, _a=a: 0 <= di <= 2 and 0 <= form <= 2 and not big and 0 <= k <= 3 and 0 <= kind < NKINDS and api == _a],
                      budget=250, bounds='1-unit reads: the first four read() calls (encoding detection, first refills) x 3 documents x 3 forms x %d exception kinds, API function %d of 6' % (NKINDS, a)))
    for vi in range(len(VALUES)):
        js.append(Job('write/value%d' % vi, write_fault,
                      [lambda vi, k, on_flush, kind, api, many, _v=vi: vi == _v and 0 <= k <= 140 and 0 <= kind < NKINDS and ((api == 0 or api == 3) if q else 0 <= api <= 3) and
                       (not many if q else True)],
                      budget=250 if q else 1500, exhaust=q,
                      bounds='value %d: every write() index and every flush() index x %d exception kinds%s' % (vi, NKINDS, '' if q else ' x 3 API functions x 1-2 documents')))
    js.append(Job('callback', callback_fault, [lambda k, kind, side: 0 <= k <= 4 and 0 <= kind < NKINDS and 0 <= side <= 1], budget=200,
                  bounds='user constructor / representer raising at invocation 0..3 (or never) x %d exception kinds' % NKINDS))
    return js
