"""C10 - customising one loader or dumper class never changes another.

One inductive step from an arbitrary reachable configuration of the copy-on-write scheme:
lattice  R <- S <- A <- B,  A <- C  built fresh under each shipped root R; symbolic
pre-state (which of A, B, C already own a table of each kind), one symbolic operation,
then the effective tables of every lattice class and of every shipped class are compared
with the ones the rule of the property predicts.
"""
import re

import yaml
import yaml.cyaml
import yaml.constructor
import yaml.representer
import yaml.resolver
from yaml.nodes import ScalarNode, SequenceNode, MappingNode
from symex.hlib import Job, reach, fail, exc_sig, not_a_finding, pick, untraced

P = 'C10'
LOADER_ROOTS = [yaml.SafeLoader, yaml.FullLoader, yaml.Loader, yaml.BaseLoader, yaml.CSafeLoader]
DUMPER_ROOTS = [yaml.SafeDumper, yaml.Dumper, yaml.BaseDumper, yaml.CSafeDumper]
LOADER_KINDS = ['yaml_constructors', 'yaml_multi_constructors', 'yaml_implicit_resolvers', 'yaml_path_resolvers']
DUMPER_KINDS = ['yaml_representers', 'yaml_multi_representers', 'yaml_implicit_resolvers', 'yaml_path_resolvers']
ALL_KINDS = ['yaml_constructors', 'yaml_multi_constructors', 'yaml_representers', 'yaml_multi_representers',
             'yaml_implicit_resolvers', 'yaml_path_resolvers']

ENCODED = ['BaseConstructor.construct_object, BaseRepresenter.represent_data, BaseResolver.resolve (dispatch against the tables: behaviour cells)', 'BaseConstructor.add_constructor / add_multi_constructor', 'BaseRepresenter.add_representer / add_multi_representer',
           'BaseResolver.add_implicit_resolver / add_path_resolver', 'yaml.add_constructor / add_multi_constructor / add_representer / '
           'add_multi_representer / add_implicit_resolver / add_path_resolver (module level, Loader=None fan-out)',
           'YAMLObjectMetaclass.__init__']
BOUNDS = {'quick': 'lattice of 4 classes under each of 9 shipped roots; pre-state: 3 ownership bits per table kind; one operation of 6 kinds on '
                   'any of the 4 classes; registered tag / first characters / path key symbolic strings of len<=2',
          'thorough': 'same plus two-step histories (op; op) and tags of len<=3'}
OUTSIDE = 'histories longer than two operations are covered by the inductive step only if the pre-state invariant (ownership bits + probe key) is complete'
ASSUMPTIONS = ['shipped class tables are snapshotted before and restored after every explored path (module-level helpers mutate them by design)']

RX = re.compile(r'^x$')
RX2 = re.compile(r'^y$')


def f1(*a):
    return 1


def f2(*a):
    return 2


class K0:
    pass


class Kpre:
    pass


def ut(f):
    """run f outside the tracer (all of its arguments are concrete objects)"""
    def w(*a, **k):
        with untraced():
            return f(*a, **k)
    w.__name__ = f.__name__
    return w


def shipped_classes():
    out = []
    for mod in (yaml.loader, yaml.dumper, yaml.cyaml, yaml.constructor, yaml.representer, yaml.resolver):
        for v in vars(mod).values():
            if isinstance(v, type) and any(hasattr(v, k) for k in ALL_KINDS) and v not in out:
                out.append(v)
    for v in (yaml.YAMLObject,):
        pass
    return out


SHIPPED = shipped_classes()


@ut
def copy_table(kind, tab):
    if kind == 'yaml_implicit_resolvers':
        return {k: list(v) for k, v in tab.items()}
    return dict(tab)


def snapshot(classes):
    snap = []
    for c in classes:
        for k in ALL_KINDS:
            if hasattr(c, k):
                own = c.__dict__.get(k)
                snap.append((c, k, own, copy_table(k, getattr(c, k)), None if own is None else copy_table(k, own)))
    return snap


def restore(snap):
    for c, k, own, eff, own_copy in snap:
        if own is None:
            if k in c.__dict__:
                delattr(c, k)
        else:
            own.clear()
            own.update(own_copy)
            if c.__dict__.get(k) is not own:
                setattr(c, k, own)


def changed(snap):
    """first shipped (class, kind) whose effective table or own-table identity differs from the snapshot"""
    for c, k, own, eff, own_copy in snap:
        if c.__dict__.get(k) is not own:
            return '%s.%s (own table object replaced/created)' % (c.__name__, k)
        if copy_table(k, getattr(c, k)) != eff:
            return '%s.%s' % (c.__name__, k)
    return None


@ut
def same(a, b):
    return a == b


def build(root):
    S = type('S', (root,), {})
    A = type('A', (S,), {})
    B = type('B', (A,), {})
    C = type('C', (A,), {})
    return [S, A, B, C]


PARENT = {1: 0, 2: 1, 3: 1}   # index -> parent index within [S, A, B, C]


def is_desc(i, j):
    """class i is j or a descendant of j"""
    while True:
        if i == j:
            return True
        if i not in PARENT:
            return False
        i = PARENT[i]


def pre_register(kind, cls, is_loader):
    if kind == 'yaml_constructors':
        cls.add_constructor('!pre', f1)
    elif kind == 'yaml_multi_constructors':
        cls.add_multi_constructor('!pre', f1)
    elif kind == 'yaml_representers':
        cls.add_representer(Kpre, f1)
    elif kind == 'yaml_multi_representers':
        cls.add_multi_representer(Kpre, f1)
    elif kind == 'yaml_implicit_resolvers':
        cls.add_implicit_resolver('!pre', RX, ['p'])
    else:
        cls.add_path_resolver('!pre', ['p'], None)


@ut
def expected_after(kind, eff_before, key, value, first):
    exp = copy_table(kind, eff_before)
    if kind == 'yaml_implicit_resolvers':
        for ch in first:
            exp.setdefault(ch, [])
            exp[ch] = exp[ch] + [(key, value)]
    else:
        exp[key] = value
    return exp


@ut
def aliasing(classes, kind):
    """no list object shared between two classes that both own an implicit-resolver table"""
    if kind != 'yaml_implicit_resolvers':
        return None
    owners = [c for c in classes if kind in c.__dict__]
    for i in range(len(owners)):
        for j in range(i + 1, len(owners)):
            a, b = owners[i].__dict__[kind], owners[j].__dict__[kind]
            if a is b:
                return 'two classes share one table object'
            for k in a:
                if k in b and a[k] is b[k]:
                    return 'list for %r shared between %s and %s' % (k, owners[i].__name__, owners[j].__name__)
    # and with the shipped ancestors
    for o in owners:
        for anc in o.__mro__[1:]:
            t = anc.__dict__.get(kind)
            if t is None:
                continue
            if t is o.__dict__[kind]:
                return 'table object shared with ' + anc.__name__
            for k in t:
                if k in o.__dict__[kind] and t[k] is o.__dict__[kind][k]:
                    return 'list for %r shared with %s' % (k, anc.__name__)
    return None


TAGS = ['!pre', '!new', 'tag:yaml.org,2002:int', '']
CHARS = ['p', 'q', '', None]


def _snapshot(classes):
    with untraced():
        return snapshot(classes)


def _restore(snap):
    with untraced():
        restore(snap)


def _changed(snap):
    with untraced():
        return changed(snap)


SIBLING = {'yaml_constructors': 'yaml_multi_constructors', 'yaml_multi_constructors': 'yaml_constructors',
           'yaml_representers': 'yaml_multi_representers', 'yaml_multi_representers': 'yaml_representers',
           'yaml_implicit_resolvers': 'yaml_path_resolvers', 'yaml_path_resolvers': 'yaml_implicit_resolvers'}


def step(root_i: int, side: int, kind_i: int, ownA: bool, ownB: bool, ownC: bool, tgt: int,
         tag_i: int, nfirst: int, c1_i: int, c2_i: int, xown: int) -> str:
    """side 0: loader roots, side 1: dumper roots.  kind_i indexes the 4 table kinds of that side.
    Registered keys are chosen among an already present key, a fresh one, a core tag and the
    empty string (inserting a symbolic str into a real dict would hash, i.e. realise, it)."""
    is_loader = side == 0
    tag = pick(tag_i, TAGS)
    c1 = pick(c1_i, CHARS)
    c2 = pick(c2_i, CHARS)
    root = pick(root_i, LOADER_ROOTS) if is_loader else pick(root_i, DUMPER_ROOTS)
    kind = pick(kind_i, LOADER_KINDS if is_loader else DUMPER_KINDS)
    snap = _snapshot(SHIPPED)
    try:
        classes = build(root)
        if ownA:
            pre_register(kind, classes[1], is_loader)
        if ownB:
            pre_register(kind, classes[2], is_loader)
        if ownC:
            pre_register(kind, classes[3], is_loader)
        # cross-kind pre-state: one lattice class already owns a table of the *sibling* kind
        # (e.g. multi-constructors when the operation is add_constructor)
        if xown >= 1:
            pre_register(SIBLING[kind], pick(xown - 1, classes), is_loader)
        ch = _changed(snap)
        if ch:
            return 'PRE-STATE registration on a lattice class changed shipped ' + ch
        own_before = [kind in c.__dict__ for c in classes]
        eff_before = [copy_table(kind, getattr(c, kind)) for c in classes]
        other_before = {}
        for k2 in (LOADER_KINDS if is_loader else DUMPER_KINDS):
            if k2 != kind:
                other_before[k2] = [(k2 in c.__dict__, copy_table(k2, getattr(c, k2))) for c in classes]
        T = pick(tgt, classes)
        first = None
        # the operation
        if kind == 'yaml_constructors':
            key, value = tag, f2
            T.add_constructor(tag, f2)
        elif kind == 'yaml_multi_constructors':
            key, value = tag, f2
            T.add_multi_constructor(tag, f2)
        elif kind == 'yaml_representers':
            key, value = (Kpre if nfirst == 0 else K0), f2
            T.add_representer(key, f2)
        elif kind == 'yaml_multi_representers':
            key, value = (Kpre if nfirst == 0 else K0), f2
            T.add_multi_representer(key, f2)
        elif kind == 'yaml_implicit_resolvers':
            key, value = tag, RX2
            if nfirst == 0:
                first_arg, first = None, [None]
            elif nfirst == 1:
                first_arg = first = [c1]
            else:
                first_arg = first = [c1, c2]
            T.add_implicit_resolver(tag, RX2, first_arg)
        else:
            kd = pick(nfirst, [None, str, list, dict])
            kn = pick(nfirst, [None, ScalarNode, SequenceNode, MappingNode])
            key, value = (((None, c1),), kn), tag
            T.add_path_resolver(tag, [c1], kd)
        reach()
        ch = _changed(snap)
        if ch:
            return 'LEAK into shipped ' + ch
        for i, c in enumerate(classes):
            affected = is_desc(i, tgt)
            if affected and i != tgt:
                # an owning class between i and the target (i itself included) shields i
                j = i
                while j != tgt:
                    if own_before[j]:
                        affected = False
                    j = PARENT[j]
            exp = expected_after(kind, eff_before[i], key, value, first) if affected else eff_before[i]
            got = copy_table(kind, getattr(c, kind))
            if not same(got, exp):
                return 'WRONG effective %s of %s after the operation on %s' % (kind, c.__name__, T.__name__)
            if i != tgt and (kind in c.__dict__) != own_before[i]:
                return 'OWNERSHIP of %s changed on %s' % (kind, c.__name__)
            for k2, lst in other_before.items():
                if not same((k2 in c.__dict__, copy_table(k2, getattr(c, k2))), lst[i]):
                    return 'OTHER table %s of %s changed' % (k2, c.__name__)
        if kind not in T.__dict__:
            return 'TARGET does not own its table after registering'
        al = aliasing(classes, kind)
        if al:
            return 'ALIAS ' + al
        return 'ok'
    except Exception as e:
        not_a_finding(e)
        return fail(P, exc_sig(e))
    finally:
        _restore(snap)


# ------------------------------------------------------------------ behaviour follows the tables
RXB = re.compile(r'^(?:[pq]?z)?$')


class SubPre(Kpre):
    pass


class Sub0(K0):
    pass


class _NullOut:
    def write(self, data):
        pass


def _twin(c, root):
    """a class that has never dispatched anything, with copies of c's effective tables"""
    d = {}
    for k in ALL_KINDS:
        if hasattr(c, k):
            d[k] = copy_table(k, getattr(c, k))
    return type('Twin', (root,), d)


def _run_probe(kind, cls, is_loader, probe):
    inst = (cls('') if is_loader else cls(_NullOut()))
    try:
        if kind in ('yaml_constructors', 'yaml_multi_constructors'):
            r = inst.construct_object(ScalarNode(probe, '7'))
        elif kind in ('yaml_representers', 'yaml_multi_representers'):
            r = inst.represent_data(probe)
            r = r if type(r) is int else type(r).__name__
        else:
            r = inst.resolve(ScalarNode, probe, (True, False))
        return ('value', r)
    except Exception as e:
        return ('exc', type(e).__name__)
    finally:
        inst.dispose()


def _dispatch_mismatch(kind, c, root, is_loader, key):
    """Relational check, no oracle of the dispatch order: class c (with whatever it has
    dispatched and registered so far) must treat every probe exactly like a fresh class that
    has the same effective tables; and an exact table entry that names one of the harness's
    own functions must be the function that runs.  All data is concrete: runs outside the tracer."""
    with untraced():
        tw = _twin(c, root)
        if kind in ('yaml_constructors', 'yaml_multi_constructors'):
            probes = [key, key + '~', '!pre', '!pre~', '!new']
        elif kind in ('yaml_representers', 'yaml_multi_representers'):
            probes = [Kpre(), K0(), SubPre(), Sub0()]
        else:
            probes = ['pz', 'qz', 'z', '', 'x', 'px']
        for pr in probes:
            got, ref = _run_probe(kind, c, is_loader, pr), _run_probe(kind, tw, is_loader, pr)
            name = pr if isinstance(pr, str) else type(pr).__name__
            if got != ref:
                return 'probe %r: %r, but a fresh class with the same tables gives %r' % (name, got, ref)
            # an exact entry of the harness's own functions must be the one that runs
            if kind == 'yaml_constructors':
                want = c.yaml_constructors.get(pr)
            elif kind == 'yaml_representers':
                want = c.yaml_representers.get(type(pr))
            else:
                continue
            for f, r in ((f1, 1), (f2, 2)):
                if (want is f) and got != ('value', r):
                    return 'probe %r: the table names %s for it, the call gave %r' % (name, f.__name__, got)
    return None


def behaviour(root_i: int, side: int, kind_i: int, ownA: bool, ownB: bool, ownC: bool, tgt: int, tag_i: int, nfirst: int, c1_i: int,
              used: bool, again: bool) -> str:
    """dispatch (construct_object / represent_data / resolve) of every lattice class agrees with its
    effective tables after the operation - also when the classes have dispatched before it (used)
    and when the target registers a second time (again): memoised look-ups must not outlive a
    registration"""
    is_loader = side == 0
    tag = pick(tag_i, TAGS)
    c1 = pick(c1_i, CHARS)
    root = pick(root_i, LOADER_ROOTS) if is_loader else pick(root_i, DUMPER_ROOTS)
    kind = pick(kind_i, (LOADER_KINDS if is_loader else DUMPER_KINDS)[:3])
    snap = _snapshot(SHIPPED)
    try:
        classes = build(root)
        if ownA:
            pre_register(kind, classes[1], is_loader)
        if ownB:
            pre_register(kind, classes[2], is_loader)
        if ownC:
            pre_register(kind, classes[3], is_loader)
        if used:
            for c in classes:
                m = _dispatch_mismatch(kind, c, root, is_loader, tag)
                if m:
                    return 'BEHAVIOUR of %s before the operation: %s' % (c.__name__, m)
        T = pick(tgt, classes)
        for rnd in range(2):
            if rnd == 1 and not again:
                break
            fn = f2 if rnd == 0 else f1
            if kind == 'yaml_constructors':
                T.add_constructor(tag, fn)
            elif kind == 'yaml_multi_constructors':
                T.add_multi_constructor(tag, fn)
            elif kind == 'yaml_representers':
                T.add_representer(Kpre if nfirst == 0 else K0, fn)
            elif kind == 'yaml_multi_representers':
                T.add_multi_representer(Kpre if nfirst == 0 else K0, fn)
            else:
                T.add_implicit_resolver(tag if rnd == 0 else '!again', RXB, None if nfirst == 0 else [c1] if nfirst == 1 else [c1, 'q'])
            reach()
            for c in classes:
                m = _dispatch_mismatch(kind, c, root, is_loader, tag)
                if m:
                    return 'BEHAVIOUR of %s after the %s registration on %s: %s' % (c.__name__, 'first' if rnd == 0 else 'second', T.__name__, m)
        ch = _changed(snap)
        if ch:
            return 'LEAK into shipped ' + ch
        return 'ok'
    except Exception as e:
        not_a_finding(e)
        return fail(P, exc_sig(e))
    finally:
        _restore(snap)



def subclass_and_yamlobject(root_i: int, ownA: bool, tgt: int, tag_i: int, as_list: bool, dtgt: int) -> str:
    """Defining a subclass changes nothing; a YAMLObject subclass registers its constructor on
    yaml_loader (class or list) and its representer on yaml_dumper, and nowhere else."""
    tag = pick(tag_i, TAGS)
    root = pick(root_i, LOADER_ROOTS)
    droot = pick(root_i, DUMPER_ROOTS + [yaml.SafeDumper])
    snap = _snapshot(SHIPPED)
    try:
        L = build(root)
        D = build(droot)
        if ownA:
            L[1].add_constructor('!pre', f1)
            D[1].add_representer(Kpre, f1)
        lat = L + D
        before = [(c, k, k in c.__dict__, copy_table(k, getattr(c, k))) for c in lat for k in ALL_KINDS if hasattr(c, k)]
        T, DT = pick(tgt, L), pick(dtgt, D)
        Sub = type('Sub', (T,), {})
        for c, k, own, eff in before:
            if (k in c.__dict__) != own or not same(copy_table(k, getattr(c, k)), eff):
                return 'SUBCLASS definition changed %s.%s' % (c.__name__, k)
        for k in LOADER_KINDS:
            if k in Sub.__dict__ or not same(copy_table(k, getattr(Sub, k)), copy_table(k, getattr(T, k))):
                return 'SUBCLASS does not inherit ' + k
        if len(tag) == 0:
            return 'ok'
        other = L[3] if tgt != 3 else L[2]
        ns = {'yaml_tag': tag, 'yaml_loader': [T, other] if as_list else T, 'yaml_dumper': DT}
        Obj = yaml.YAMLObjectMetaclass('Obj', (yaml.YAMLObject,), ns)
        reach()
        ch = _changed(snap)
        if ch:
            return 'LEAK into shipped ' + ch
        targets = [T, other] if as_list else [T]
        for c, k, own, eff in before:
            exp = eff
            is_l = c in L
            idx = (L if is_l else D).index(c)
            if k == 'yaml_constructors' and is_l:
                for t in targets:
                    ti = L.index(t)
                    aff = is_desc(idx, ti)
                    j = idx
                    while aff and j != ti:
                        if ownA and j == 1:
                            aff = False
                        j = PARENT[j]
                    if aff:
                        exp = dict(exp)
                        exp[tag] = Obj.from_yaml
            if k == 'yaml_representers' and not is_l:
                ti = dtgt
                aff = is_desc(idx, ti)
                j = idx
                while aff and j != ti:
                    if ownA and j == 1:
                        aff = False
                    j = PARENT[j]
                if aff:
                    exp = dict(exp)
                    exp[Obj] = Obj.to_yaml
            if not same(copy_table(k, getattr(c, k)), exp):
                return 'YAMLOBJECT wrong %s on %s' % (k, c.__name__)
        return 'ok'
    except Exception as e:
        not_a_finding(e)
        return fail(P, exc_sig(e))
    finally:
        _restore(snap)


def module_helpers(op: int, tag_i: int, explicit: int, c1_i: int) -> str:
    """yaml.add_* with Loader=None fan out to exactly Loader, FullLoader, UnsafeLoader (+ Dumper);
    with an explicit Loader/Dumper only that class (and non-owning subclasses) changes."""
    tag = pick(tag_i, TAGS)
    c1 = pick(c1_i, CHARS)
    snap = _snapshot(SHIPPED)
    try:
        myL = type('MyL', (yaml.SafeLoader,), {})
        myD = type('MyD', (yaml.SafeDumper,), {})
        Lsel = None if explicit == 0 else myL
        Dsel = yaml.Dumper if explicit == 0 else myD
        if op == 0:
            yaml.add_constructor(tag, f2, Loader=Lsel)
            touched = {'yaml_constructors'}
        elif op == 1:
            yaml.add_multi_constructor(tag, f2, Loader=Lsel)
            touched = {'yaml_multi_constructors'}
        elif op == 2:
            yaml.add_representer(K0, f2, Dumper=Dsel)
            touched = {'yaml_representers'}
        elif op == 3:
            yaml.add_multi_representer(K0, f2, Dumper=Dsel)
            touched = {'yaml_multi_representers'}
        elif op == 4:
            yaml.add_implicit_resolver(tag, RX2, [c1], Loader=Lsel, Dumper=Dsel)
            touched = {'yaml_implicit_resolvers'}
        else:
            yaml.add_path_resolver(tag, [c1], None, Loader=Lsel, Dumper=Dsel)
            touched = {'yaml_path_resolvers'}
        reach()
        loader_side = op in (0, 1, 4, 5)
        dumper_side = op in (2, 3, 4, 5)
        allowed = set()
        if explicit == 0:
            if loader_side:
                allowed |= {yaml.Loader, yaml.FullLoader, yaml.UnsafeLoader}
            if dumper_side:
                allowed |= {yaml.Dumper}
        for c, k, own, eff, own_copy in snap:
            now_own = c.__dict__.get(k)
            same_ = now_own is own and same(copy_table(k, getattr(c, k)), eff)
            if c in allowed and k in touched:
                if same_:
                    return 'HELPER did not register on ' + c.__name__
                continue
            if not same_:
                # a shipped class that inherits (does not own) from an allowed class may see the change
                inherits = own is None and now_own is None and any(a in c.__mro__[1:] for a in allowed) and k in touched
                if not inherits:
                    return 'HELPER leaked %s into %s' % (k, c.__name__)
        if explicit == 1:
            for c, kinds in ((myL, LOADER_KINDS), (myD, DUMPER_KINDS)):
                for k in kinds:
                    hit = k in touched and ((c is myL and loader_side) or (c is myD and dumper_side))
                    if (k in c.__dict__) != hit:
                        return 'HELPER explicit target %s.%s ownership=%r expected %r' % (c.__name__, k, k in c.__dict__, hit)
        return 'ok'
    except Exception as e:
        not_a_finding(e)
        return fail(P, exc_sig(e))
    finally:
        _restore(snap)


def two_steps(root_i: int, kind_i: int, t1: int, t2: int, tag1_i: int, tag2_i: int) -> str:
    """op; op on the constructor/implicit tables from the pristine lattice: cross-check of the
    one-step invariant against an executable model of the rule."""
    tag1, tag2 = pick(tag1_i, TAGS), pick(tag2_i, TAGS)
    root = pick(root_i, LOADER_ROOTS)
    kind = pick(kind_i, ['yaml_constructors', 'yaml_implicit_resolvers'])
    snap = _snapshot(SHIPPED)
    try:
        classes = build(root)
        base = copy_table(kind, getattr(root, kind))
        model_own = [None, None, None, None]

        def eff(i):
            while True:
                if model_own[i] is not None:
                    return model_own[i]
                if i not in PARENT:
                    return base
                i = PARENT[i]
        for t, tg in ((t1, tag1), (t2, tag2)):
            T = pick(t, classes)
            cur = copy_table(kind, eff(t))
            if kind == 'yaml_constructors':
                T.add_constructor(tg, f2)
                cur[tg] = f2
            else:
                T.add_implicit_resolver(tg, RX2, ['q'])
                cur['q'] = cur.get('q', []) + [(tg, RX2)]
            model_own[t] = cur
        reach()
        for i, c in enumerate(classes):
            if not same(copy_table(kind, getattr(c, kind)), eff(i)):
                return 'TWO-STEP wrong %s on %s' % (kind, c.__name__)
        ch = _changed(snap)
        if ch:
            return 'LEAK into shipped ' + ch
        al = aliasing(classes, kind)
        if al:
            return 'ALIAS ' + al
        return 'ok'
    except Exception as e:
        not_a_finding(e)
        return fail(P, exc_sig(e))
    finally:
        _restore(snap)


def jobs(tier):
    js = []
    q = tier == 'quick'
    NC = 1 if q else 2      # first characters range over CHARS[0..NC]
    NT = 1 if q else 3      # keys of the resolver tables range over TAGS[0..NT]
    NK = 1 if q else 3      # path-resolver node kinds
    for side, roots in ((0, LOADER_ROOTS), (1, DUMPER_ROOTS)):
        for ri, r in enumerate(roots):
            for ki in range(4):
                kinds = LOADER_KINDS if side == 0 else DUMPER_KINDS
                for nf in ((0, 1, 2) if ki == 2 else (None,)):
                    js.append(Job('step/%s/%s%s' % (r.__name__, kinds[ki][5:], '' if nf is None else '/first%d' % nf), step,
                                  [lambda root_i, side, kind_i, ownA, ownB, ownC, tgt, tag_i, nfirst, c1_i, c2_i, xown, _s=side, _r=ri, _k=ki, _nf=nf:
                                   ((xown == 0 or xown == tgt + 1) if q else 0 <= xown <= 4) and root_i == _r and side == _s and kind_i == _k and 0 <= tgt <= 3 and 0 <= tag_i <= (NT if _k >= 2 else 3) and
                                   (nfirst == _nf if _nf is not None else 0 <= nfirst <= (NK if _k == 3 else 1)) and
                                   0 <= c1_i <= (NC if (_k == 3 or (_k == 2 and nfirst >= 1)) else 0) and
                                   0 <= c2_i <= (NC if (_k == 2 and nfirst == 2) else 0)],
                                  budget=150, bounds='root %s, table %s, 3 ownership bits + sibling-kind ownership by one of 4 classes, 4 targets, keys {present, fresh, core, empty}, first-character lists of 0..2 chars' % (r.__name__, kinds[ki])))
    for side, roots in ((0, LOADER_ROOTS), (1, DUMPER_ROOTS)):
        for ri, r in enumerate(roots):
            js.append(Job('behaviour/%s' % r.__name__, behaviour,
                          [lambda root_i, side, kind_i, ownA, ownB, ownC, tgt, tag_i, nfirst, c1_i, used, again, _s=side, _r=ri:
                           root_i == _r and side == _s and 0 <= kind_i <= 2 and 0 <= tgt <= 3 and 0 <= tag_i <= (1 if q else 3) and 0 <= nfirst <= (2 if kind_i == 2 else 1) and
                           0 <= c1_i <= (2 if kind_i == 2 and nfirst >= 1 else 0) and (not ownC if q else True)],
                          budget=200, bounds='root %s: dispatch of every lattice class against its effective tables, before (optionally) and after one or two registrations of 3 kinds on any of 4 classes' % r.__name__))
    for ri, r in enumerate(LOADER_ROOTS):
        js.append(Job('yamlobject/%s' % r.__name__, subclass_and_yamlobject,
                      [lambda root_i, ownA, tgt, tag_i, as_list, dtgt, _r=ri: root_i == _r and 0 <= tgt <= 3 and 0 <= dtgt <= 3 and 0 <= tag_i <= 3],
                      budget=160, bounds='subclass + YAMLObject definition, loader root %s' % r.__name__))
    js.append(Job('helpers', module_helpers, [lambda op, tag_i, explicit, c1_i: 0 <= op <= 5 and 0 <= explicit <= 1 and 0 <= tag_i <= 3 and 0 <= c1_i <= 3],
                  budget=150, bounds='6 module-level helpers x {Loader=None, explicit} x 4 keys x 4 first characters'))
    if tier != 'quick':
        for ri, r in enumerate(LOADER_ROOTS):
            js.append(Job('twostep/%s' % r.__name__, two_steps,
                          [lambda root_i, kind_i, t1, t2, tag1_i, tag2_i, _r=ri: root_i == _r and 0 <= kind_i <= 1 and 0 <= t1 <= 3 and 0 <= t2 <= 3
                           and 0 <= tag1_i <= 3 and 0 <= tag2_i <= 3], budget=600, bounds='two operations, root %s' % r.__name__))
    return js
