"""C14 - mappings, merge keys, sets and ordered maps are built by their YAML 1.1 rules."""
import yaml
from yaml.nodes import ScalarNode, SequenceNode, MappingNode
from symex.hlib import Job, reach, fail, exc_sig, not_a_finding, pick

P = 'C14'
T = 'tag:yaml.org,2002:'
ENCODED = ['SafeConstructor.flatten_mapping', 'SafeConstructor.construct_mapping', 'BaseConstructor.construct_mapping / construct_pairs',
           'SafeConstructor.construct_yaml_map / set / omap / pairs', 'BaseConstructor.construct_document / construct_object']
BOUNDS = {'quick': 'top mapping with 2 entries of 12 kinds each (plain keys, an int key that the merged mapping spells differently, duplicate keys, single and list merges in both orders, quoted <<, = key, '
                   'scalar / mixed-list merge values, unhashable key) x merge source M1 with 2 entries of 6 kinds (incl. a nested merge and equal keys in other spellings) x a sibling '
                   'mapping sharing M1 x M1 also constructed on its own; set/omap/pairs nodes of 9 shapes',
          'thorough': 'top mapping with 3 entries'}
OUTSIDE = 'second back-end (same constructor code fed by libyaml); merge nesting deeper than 2'
ASSUMPTIONS = ['oracle: the non-mutating evaluator ref_map() below (own keys win; earlier list element over later; later merge key over earlier; recursive; last duplicate wins)',
               'node graphs are built directly (parser skipped)']


class Err(Exception):
    pass


# ----------------------------------------------------------------- descriptions
# a mapping description is a list of entries (kind, payload); see mk_top/mk_m1
M2 = [('key', 'b', 210), ('key', 'c', 211)]
M3 = [('key', 'a', 300), ('key', 'c', 301)]


def top_entry(k, i):
    if k == 0:
        return ('key', 'a', 10 + i)
    if k == 1:
        return ('key', 'b', 20 + i)
    if k == 2:
        return ('merge', ['M1'])
    if k == 3:
        return ('merge', ['M2'])
    if k == 4:
        return ('mergelist', ['M1', 'M2'])
    if k == 5:
        return ('mergelist', ['M2', 'M1'])
    if k == 6:
        return ('qmerge', '<<', 30 + i)
    if k == 7:
        return ('merge-scalar',)
    if k == 8:
        return ('mergelist-bad',)
    if k == 9:
        return ('unhashable', 40 + i)
    if k == 11:
        return ('ikey', '16', 70 + i)           # an int key, spelled in decimal here ...
    return ('valuekey', '=', 50 + i)


def m1_entry(k, i):
    if k == 0:
        return ('key', 'a', 100 + i)
    if k == 1:
        return ('key', 'b', 110 + i)
    if k == 2:
        return ('key', 'c', 120 + i)
    if k == 4:
        return ('ikey', '0x10', 130 + i)        # ... and in hexadecimal in the merged mapping: equal keys, different spellings
    if k == 5:
        return ('ikey', '020', 140 + i)         # octal spelling of the same key
    return ('merge', ['M3'])


# ----------------------------------------------------------------- reference evaluator (non-mutating)
def ref_map(desc, env):
    """-> (dict, has_merge).  Raises Err for ill-shaped merges / unhashable keys."""
    own = []
    merges = []
    for e in desc:
        if e[0] == 'key' or e[0] == 'qmerge' or e[0] == 'valuekey':
            own.append((e[1], e[2]))
        elif e[0] == 'ikey':
            own.append((16, e[2]))
        elif e[0] == 'merge' or e[0] == 'mergelist':
            merges.append(e[1])
        elif e[0] == 'merge-scalar' or e[0] == 'mergelist-bad' or e[0] == 'unhashable':
            raise Err(e[0])
    res = {}
    for srcs in merges:                 # a later merge key overrides an earlier one
        tmp = {}
        for name in reversed(srcs):     # an earlier list element overrides a later one
            tmp.update(ref_map(env[name], env)[0])
        res.update(tmp)
    # keys the mapping defines itself always win, the last duplicate among them
    mine = {}
    for k, v in own:
        mine[k] = v
    for k in mine:
        res.pop(k, None)
    res.update(mine)
    return res, bool(merges)


def ref_order(desc):
    """document order of the keys of a merge-free mapping"""
    seen = []
    for e in desc:
        k = 16 if e[0] == 'ikey' else e[1]
        if k not in seen:
            seen.append(k)
    return seen


# ----------------------------------------------------------------- node building
def s(v):
    return ScalarNode(T + 'str', v)


def n(v):
    return ScalarNode(T + 'int', str(v))


def build_map(desc, nodes):
    pairs = []
    for e in desc:
        if e[0] == 'key':
            pairs.append((s(e[1]), n(e[2])))
        elif e[0] == 'ikey':
            pairs.append((ScalarNode(T + 'int', e[1]), n(e[2])))
        elif e[0] == 'qmerge':
            pairs.append((ScalarNode(T + 'str', '<<'), n(e[2])))       # a quoted '<<' resolves to str
        elif e[0] == 'valuekey':
            pairs.append((ScalarNode(T + 'value', '='), n(e[2])))
        elif e[0] == 'merge':
            pairs.append((ScalarNode(T + 'merge', '<<'), nodes[e[1][0]]))
        elif e[0] == 'mergelist':
            pairs.append((ScalarNode(T + 'merge', '<<'), SequenceNode(T + 'seq', [nodes[x] for x in e[1]])))
        elif e[0] == 'merge-scalar':
            pairs.append((ScalarNode(T + 'merge', '<<'), s('x')))
        elif e[0] == 'mergelist-bad':
            pairs.append((ScalarNode(T + 'merge', '<<'), SequenceNode(T + 'seq', [nodes['M1'], s('x')])))
        elif e[0] == 'unhashable':
            pairs.append((SequenceNode(T + 'seq', [s('k')]), n(e[1])))
    return MappingNode(T + 'map', pairs)


def merge(k0: int, k1: int, k2: int, nt: int, j0: int, j1: int, order: int) -> str:
    top = [top_entry(k0, 0), top_entry(k1, 1), top_entry(k2, 2)][:nt]
    m1 = [m1_entry(j0, 0), m1_entry(j1, 1)]
    sib = [('merge', ['M1']), ('key', 'b', 60)]
    env = {'M1': m1, 'M2': M2, 'M3': M3}
    nodes = {}
    nodes['M3'] = build_map(M3, nodes)
    nodes['M2'] = build_map(M2, nodes)
    nodes['M1'] = build_map(m1, nodes)
    ntop = build_map(top, nodes)
    nsib = build_map(sib, nodes)
    # the shared source is also constructed on its own, before or after its users
    items = [ntop, nsib, nodes['M1']] if order == 0 else [nodes['M1'], nsib, ntop] if order == 1 else [nsib, nodes['M1'], ntop]
    descs = [top, sib, m1] if order == 0 else [m1, sib, top] if order == 1 else [sib, m1, top]
    root = SequenceNode(T + 'seq', items)
    want = []
    want_err = False
    try:
        for d in descs:
            want.append(ref_map(d, env))
    except Err:
        want_err = True
    loader = yaml.SafeLoader('')
    try:
        got = loader.construct_document(root)
    except yaml.constructor.ConstructorError:
        reach()
        return 'ok' if want_err else fail(P, 'REJECTED a well-formed mapping', k0=k0, k1=k1)
    except Exception as e:
        not_a_finding(e)
        return fail(P, exc_sig(e), k0=k0, k1=k1)
    if want_err:
        return fail(P, 'ACCEPTED an ill-shaped merge value or an unhashable key', k0=k0, k1=k1)
    reach()
    for i in range(3):
        w, has_merge = want[i]
        g = got[i]
        if type(g) is not dict or g != w:
            return fail(P, 'WRONG mapping %d: got %r, rules give %r' % (i, g, w), k0=k0, k1=k1)
        if not has_merge and list(g) != ref_order(descs[i]):
            return fail(P, 'ORDER of a merge-free mapping is not document order', k0=k0, k1=k1)
    return 'ok'


def collections(tag_i: int, shape: int) -> str:
    """!!set / !!omap / !!pairs nodes of every shape"""
    tag = pick(tag_i, ['set', 'omap', 'pairs'])
    one = lambda k, v: MappingNode(T + 'map', [(s(k), n(v))])
    null = lambda: ScalarNode(T + 'null', '')
    if tag == 'set':
        if shape == 0:
            node, want = MappingNode(T + 'set', [(s('a'), null()), (s('b'), null())]), {'a', 'b'}
        elif shape == 1:
            node, want = MappingNode(T + 'set', [(s('a'), null()), (s('a'), null())]), {'a'}
        elif shape == 2:
            node, want = MappingNode(T + 'set', []), set()
        elif shape == 3:
            node, want = SequenceNode(T + 'set', [s('a')]), Err
        elif shape == 4:
            node, want = ScalarNode(T + 'set', 'a'), Err
        elif shape == 5:
            node, want = MappingNode(T + 'set', [(SequenceNode(T + 'seq', []), null())]), Err
        elif shape == 6:
            node, want = MappingNode(T + 'set', [(ScalarNode(T + 'merge', '<<'), MappingNode(T + 'map', [(s('m'), null())])), (s('a'), null())]), {'m', 'a'}
        else:
            node, want = MappingNode(T + 'set', [(s('a'), n(1))]), {'a'}
    else:
        if shape == 0:
            node, want = SequenceNode(T + tag, [one('a', 1), one('b', 2)]), [('a', 1), ('b', 2)]
        elif shape == 1:
            node, want = SequenceNode(T + tag, [one('a', 1), one('a', 2)]), [('a', 1), ('a', 2)]
        elif shape == 2:
            node, want = SequenceNode(T + tag, []), []
        elif shape == 3:
            node, want = SequenceNode(T + tag, [s('a')]), Err
        elif shape == 4:
            node, want = SequenceNode(T + tag, [MappingNode(T + 'map', [(s('a'), n(1)), (s('b'), n(2))])]), Err
        elif shape == 5:
            node, want = SequenceNode(T + tag, [MappingNode(T + 'map', [])]), Err
        elif shape == 6:
            node, want = MappingNode(T + tag, [(s('a'), n(1))]), Err
        else:
            node, want = ScalarNode(T + tag, 'a'), Err
    loader = yaml.SafeLoader('')
    try:
        got = loader.construct_document(node)
    except yaml.constructor.ConstructorError:
        reach()
        return 'ok' if want is Err else fail(P, 'REJECTED a well-formed !!%s' % tag, tag_i=tag_i, shape=shape)
    except Exception as e:
        not_a_finding(e)
        return fail(P, exc_sig(e), tag_i=tag_i, shape=shape)
    if want is Err:
        return fail(P, 'ACCEPTED an ill-shaped !!%s (shape %d)' % (tag, shape), tag_i=tag_i, shape=shape)
    reach()
    if type(got) is not type(want) or got != want:
        return fail(P, 'WRONG !!%s: %r' % (tag, got), tag_i=tag_i, shape=shape)
    return 'ok'


def text_level(which: int) -> str:
    """the same rules through the real parser, on the documents of the repository's merge examples
    (concrete; ties the node-level harness to safe_load)"""
    docs = [
        ("a: 1\nb: 2\na: 3\n", {'a': 3, 'b': 2}),
        ("- &M {x: 1, y: 2}\n- {<<: *M, x: 9}\n- {x: 9, <<: *M}\n", [{'x': 1, 'y': 2}, {'x': 9, 'y': 2}, {'x': 9, 'y': 2}]),
        ("- &A {x: 1}\n- &B {x: 2, y: 2}\n- {<<: [*A, *B]}\n- {<<: [*B, *A]}\n", [{'x': 1}, {'x': 2, 'y': 2}, {'x': 1, 'y': 2}, {'x': 2, 'y': 2}]),
        ("- &A {x: 1}\n- &B {x: 2}\n- {<<: *A, <<: *B}\n", [{'x': 1}, {'x': 2}, {'x': 2}]),
        ("'<<': 1\n", {'<<': 1}),
        ("- &A {x: 1}\n- &B {<<: *A, y: 2}\n- {<<: *B, z: 3}\n- *B\n", [{'x': 1}, {'x': 1, 'y': 2}, {'x': 1, 'y': 2, 'z': 3}, {'x': 1, 'y': 2}]),
    ]
    if which >= 6:
        # unhashable keys under the full loader (a tuple holding a list hashes to TypeError)
        bad = ["? !!python/tuple [[1]]\n: 2\n", "!!set {? !!python/tuple [[1]] }\n", "? [1]\n: 2\n", "? {a: 1}\n: 2\n"]
        try:
            yaml.full_load(pick(which - 6, bad))
        except yaml.constructor.ConstructorError:
            reach()
            return 'ok'
        except Exception as e:
            return fail(P, 'text ' + exc_sig(e), which=which)
        return fail(P, 'TEXT unhashable key accepted', which=which)
    text, want = pick(which, docs)
    got = yaml.safe_load(text)
    reach()
    if got != want:
        return fail(P, 'TEXT %r loads as %r' % (text, got), which=which)
    if which == 0 and list(got) != ['a', 'b']:
        return 'ORDER'
    return 'ok'


def jobs(tier):
    q = tier == 'quick'
    NT = 2 if q else 3
    js = []
    for k in range(12):
        js.append(Job('merge/top0=%d' % k, merge,
                      [lambda k0, k1, k2, nt, j0, j1, order, _k=k: k0 == _k and 0 <= k1 <= 11 and 0 <= k2 <= (11 if NT == 3 else 0) and nt == NT
                       and 0 <= j0 <= 5 and 0 <= j1 <= 5 and 0 <= order <= 2],
                      budget=200 if q else 1800, bounds='first top entry kind %d; %d top entries x 36 shapes of M1 (keys a, b, c, a nested merge, the int key 16 spelled 0x10 / 020) x 3 construction orders' % (k, NT)))
    js.append(Job('collections', collections, [lambda tag_i, shape: 0 <= tag_i <= 2 and 0 <= shape <= 7], budget=60, bounds='!!set/!!omap/!!pairs x 8 shapes'))
    js.append(Job('text', text_level, [lambda which: 0 <= which <= 9], budget=60, bounds='10 concrete documents through safe_load / full_load'))
    return js
