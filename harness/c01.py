"""C01 - safe loading is confined to plain data (DESIGN.md section 4, C01)."""
import datetime
import sys

import yaml
from yaml.nodes import ScalarNode, SequenceNode, MappingNode
from symex.hlib import Job, reach, fail, exc_sig, not_a_finding, pick, CONCRETE, no_library_imports
from spec import yaml11_types as spec
from symex import standins, pymodels

P = 'C01'
T = 'tag:yaml.org,2002:'
CORE_LIST = [T + x for x in 'null bool int float binary timestamp omap pairs set str seq map'.split()]
CORE = frozenset(CORE_LIST)
SCALAR_KINDS = ['null', 'bool', 'int', 'float', 'binary', 'timestamp']
SAFE_TYPES = (type(None), bool, int, float, str, bytes, datetime.date, datetime.datetime, list, dict, set)

ENCODED = ['BaseConstructor.construct_document', 'BaseConstructor.construct_object',
           'BaseConstructor.construct_scalar/sequence/mapping/pairs', 'SafeConstructor.flatten_mapping',
           'SafeConstructor.construct_yaml_* (12)', 'SafeConstructor.construct_undefined',
           'BaseConstructor.add_constructor/add_multi_constructor (through the class tables they built at import)',
           'yaml.load / safe_load / safe_load_all', 'loader classes SafeLoader, BaseLoader, CSafeLoader, CBaseLoader (Python halves)']
BOUNDS = {
    'quick': 'tag: any str with len<=48 over all code points; node kind in {scalar,seq,map}; 4 loader classes; '
             'core-tag scalar values len<=2; 16 placement contexts (4 of them places whose value is overridden and never reaches the result)',
    'thorough': 'same with core-tag scalar values len<=3 and tags len<=64',
}
OUTSIDE = ('text -> node for the C loaders (libyaml, not symbolically executable here); tags longer than the bound; '
           'documents deeper than the placement skeletons')
ASSUMPTIONS = ['M1: error-message formatting in yaml/*.py replaced by a placeholder (message text is not part of C01)',
               'nodes are built directly (the parser is skipped); C loader instances are created on an empty concrete stream']


def in_universe(obj, depth=0, in_pairs=False):
    if depth > 12:
        return True
    t = type(obj)
    if t is tuple:
        return in_pairs and len(obj) == 2 and in_universe(obj[0], depth + 1) and in_universe(obj[1], depth + 1)
    if t not in SAFE_TYPES:
        return False
    if t is list:
        return all(in_universe(x, depth + 1, True) for x in obj)
    if t is dict:
        return all(in_universe(k, depth + 1) and in_universe(v, depth + 1) for k, v in obj.items())
    if t is set:
        return all(in_universe(k, depth + 1) for k in obj)
    return True


LOADERS = [yaml.SafeLoader, yaml.BaseLoader, yaml.CSafeLoader, yaml.CBaseLoader]


def in_core(tag):
    # explicit comparison chain: `tag in frozenset` would hash (= realise) a symbolic tag
    for c in CORE_LIST:
        if tag == c:
            return True
    return False


def _tk(tag):
    return tag[len(T):] if in_core(tag) else '?'


def _mk(tag, kind):
    if kind == 0:
        return ScalarNode(tag, '')
    elif kind == 1:
        return SequenceNode(tag, [])
    return MappingNode(tag, [])


@no_library_imports(P)
def dispatch(tag: str, kind: int, lc: int) -> str:
    """Every tag x node kind x the four safe/base classes: rejected unless core."""
    cls = pick(lc, LOADERS)
    loader = cls('')
    node = _mk(tag, kind)
    mods = len(sys.modules)
    try:
        obj = loader.construct_document(node)
    except yaml.constructor.ConstructorError:
        reach()
        return 'ok'
    except Exception as e:
        not_a_finding(e)
        return fail(P, exc_sig(e), kind=_tk(tag), nk=kind, lc=lc, v='')
    finally:
        loader.dispose() if hasattr(loader, 'dispose') else None
    if len(sys.modules) != mods:
        return 'IMPORTED'
    if lc == 1 or lc == 3:
        # base loaders: everything is str / list / dict
        return 'ok' if type(obj) in (str, list, dict) else 'BASE-TYPE ' + type(obj).__name__
    if not in_core(tag):
        return 'LEAK non-core tag constructed: ' + type(obj).__name__
    reach()
    if not in_universe(obj):
        return 'TYPE ' + type(obj).__name__
    return 'ok'


@no_library_imports(P)
def core_value(t: int, v: str) -> str:
    """Core scalar constructors over all short values: result in the universe or a YAML error."""
    kind = pick(t, SCALAR_KINDS)
    tag = T + kind
    loader = yaml.SafeLoader('')
    node = ScalarNode(tag, v)
    try:
        with standins.swap(yaml.constructor, 'base64', standins.B64):
            obj = loader.construct_document(node)
    except yaml.YAMLError:
        reach()
        return 'ok'
    except Exception as e:
        not_a_finding(e)
        reach()
        return fail(P, exc_sig(e), t=t, v=v, kind=kind)
    reach()
    if not in_universe(obj):
        return 'TYPE ' + type(obj).__name__
    return 'ok'


def digit_limit(n: int, t: int) -> str:
    """the int and float constructors on decimal texts around the interpreter's int <-> str limit"""
    for i in range(4296, 4306):
        if n == i:
            return core_value(t, '1' * i)
    return 'ok'


def _place(ctx, x):
    """Put node x into one of the placement contexts; returns the document root."""
    s = lambda v: ScalarNode(T + 'str', v)
    m = lambda pairs, tag=T + 'map': MappingNode(tag, pairs)
    q = lambda items, tag=T + 'seq': SequenceNode(tag, items)
    mk = ScalarNode(T + 'merge', '<<')
    if ctx == 0:
        return q([x])
    if ctx == 1:
        return m([(x, s('v'))])
    if ctx == 2:
        return m([(s('k'), x)])
    if ctx == 3:
        return m([(mk, x)])
    if ctx == 4:
        return m([(mk, q([m([]), x]))])
    if ctx == 5:
        return m([(x, ScalarNode(T + 'null', ''))], T + 'set')
    if ctx == 6:
        return q([m([(s('k'), x)])], T + 'omap')
    if ctx == 7:
        return q([m([(x, s('v'))])], T + 'pairs')
    if ctx == 8:
        return q([x, x])            # anchored + alias: the same node twice
    if ctx == 9:
        return m([(mk, m([(s('k'), x)]))])   # inside a merged mapping
    if ctx == 10:
        return q([q([m([(s('a'), q([x]))])])])
    # places whose value never reaches the result: it is still part of the document and must be looked at
    if ctx == 12:
        return m([(mk, m([(s('k'), x)])), (s('k'), s('own'))])       # merged entry overridden by a key of the merging mapping
    if ctx == 13:
        return m([(s('k'), s('own')), (mk, m([(s('k'), x)]))])       # ... the own key coming first
    if ctx == 14:
        return m([(mk, q([m([(s('k'), s('first'))]), m([(s('k'), x)])]))])   # overridden by an earlier element of a merge list
    if ctx == 15:
        return m([(s('k'), x), (s('k'), s('later'))])                # first of two equal keys
    return m([(s('k'), x), (s('k2'), x)])


@no_library_imports(P)
def context(tag: str, kind: int, ctx: int) -> str:
    loader = yaml.SafeLoader('')
    x = _mk(tag, kind)
    root = _place(ctx, x)
    try:
        obj = loader.construct_document(root)
    except yaml.constructor.ConstructorError:
        reach()
        return 'ok'
    except Exception as e:
        not_a_finding(e)
        return fail(P, exc_sig(e), kind=_tk(tag), nk=kind, ctx=ctx, v='')
    if tag == T + 'value' and (ctx == 1 or ctx == 5) and kind == 0:
        # the YAML 1.1 '=' (value) key: flatten_mapping turns such a *key* into a plain str
        # key; the tag belongs to the YAML 1.1 repository and the result is plain data.
        return 'ok' if in_universe(obj) else 'TYPE'
    if not in_core(tag):
        if ctx == 3 or ctx == 4:
            return fail(P, 'LEAK-MERGE-SOURCE', nk=kind, ctx=ctx)
        return 'LEAK in context %d' % ctx
    if not in_universe(obj):
        return 'TYPE'
    return 'ok'


class _StubbedSafe:
    """safe_load / safe_load_all / load(SafeLoader) with the composer's result replaced by
    an arbitrary node ("the parser returns any node")."""
    def __init__(self, node):
        self.node = node
        self.hit = 0

    def __enter__(self):
        self.saved = (yaml.SafeLoader.get_single_node, yaml.SafeLoader.check_node, yaml.SafeLoader.get_node)
        stub = self
        state = {'n': 0}

        def get_single_node(loader):
            stub.hit += 1
            return stub.node

        def check_node(loader):
            return state['n'] == 0

        def get_node(loader):
            state['n'] += 1
            stub.hit += 1
            return stub.node
        yaml.SafeLoader.get_single_node = get_single_node
        yaml.SafeLoader.check_node = check_node
        yaml.SafeLoader.get_node = get_node
        return self

    def __exit__(self, *a):
        for name in ('get_single_node', 'check_node', 'get_node'):
            delattr(yaml.SafeLoader, name)
        return False


@no_library_imports(P)
def api(tag: str, kind: int, which: int) -> str:
    x = _mk(tag, kind)
    with _StubbedSafe(x) as st:
        try:
            if which == 0:
                obj = yaml.safe_load('')
            elif which == 1:
                obj = list(yaml.safe_load_all(''))
            else:
                obj = yaml.load('', Loader=yaml.SafeLoader)
        except yaml.constructor.ConstructorError:
            if st.hit:
                reach()
            return 'ok' if st.hit else 'STUB-NOT-HIT (entry point is not bound to SafeLoader)'
        except Exception as e:
            not_a_finding(e)
            return fail(P, exc_sig(e), kind=_tk(tag), nk=kind, v='')
        if not st.hit:
            return 'STUB-NOT-HIT (entry point is not bound to SafeLoader)'
    if not in_core(tag):
        return 'LEAK through API %d' % which
    if not in_universe(obj):
        return 'TYPE'
    return 'ok'


def _user_ctor(loader, node):
    return ('constructed by a user constructor', node.tag)


def _user_multi(loader, suffix, node):
    return ('constructed by a user multi-constructor', suffix)


class _UserObj(object):
    pass


def after_registration(op: int, lc: int, kind: int, ctx: int) -> str:
    """Registrations that do not target the safe classes (module-level helpers with Loader=None,
    a YAMLObject subclass with the default yaml_loader, a registration on Full/Unsafe or on a
    subclass of SafeLoader) must leave the six safe/base classes rejecting the tag."""
    from harness.c10 import SHIPPED, snapshot, restore
    from symex.hlib import untraced
    with untraced():
        snap = snapshot(SHIPPED)
    try:
        if op == 0:
            yaml.add_constructor('!user', _user_ctor)
            tag = '!user'
        elif op == 1:
            yaml.add_multi_constructor('!userm:', _user_multi)
            tag = '!userm:x'
        elif op == 2:
            type('Obj', (yaml.YAMLObject,), {'yaml_tag': '!userobj'})
            tag = '!userobj'
        elif op == 3:
            yaml.FullLoader.add_constructor('!user', _user_ctor)
            yaml.UnsafeLoader.add_multi_constructor('!userm:', _user_multi)
            tag = '!user'
        elif op == 4:
            sub = type('Sub', (yaml.SafeLoader,), {})
            sub.add_constructor('!user', _user_ctor)
            sub.add_multi_constructor('!userm:', _user_multi)
            tag = '!userm:x'
        else:
            sub = type('CSub', (yaml.CSafeLoader,), {})
            sub.add_multi_constructor('!userm:', _user_multi)
            sub.add_constructor('!user', _user_ctor)
            tag = '!user'
        cls = pick(lc, LOADERS)
        loader = cls('')
        x = _mk(tag, kind)
        root = _place(ctx, x)
        try:
            obj = loader.construct_document(root)
        except yaml.constructor.ConstructorError:
            reach()
            return 'ok'
        except Exception as e:
            not_a_finding(e)
            return fail(P, exc_sig(e), kind='?', nk=kind, ctx=ctx, v='')
        finally:
            loader.dispose()
        if lc == 1 or lc == 3:
            reach()
            return 'ok' if in_universe(obj) else 'BASE-TYPE a base loader built a foreign object after a registration elsewhere'
        if ctx == 3 or ctx == 4:
            return fail(P, 'LEAK-MERGE-SOURCE', nk=kind, ctx=ctx)
        return 'LEAK a registration made elsewhere is honoured by %s' % cls.__name__
    finally:
        with untraced():
            restore(snap)


HISTORY_TAGS = [T + 'python/name:m1.f', T + 'python/name:builtins.len', T + 'python/tuple', T + 'python/object/apply:m1.f', T + 'python/module:m1',
                T + 'python/object:m1.f', '!userm:x', T + 'python/complex']


def history(tag_i: int, first: int, lc: int, kind: int) -> str:
    """A trusted load of a tag, then a safe load of the very same tag in the same process."""
    from harness.c04 import Contained
    tag = pick(tag_i, HISTORY_TAGS)
    trusted = pick(first, [yaml.FullLoader, yaml.UnsafeLoader, yaml.Loader])
    with Contained():
        had = '!userm:' in trusted.yaml_multi_constructors
        if not had:
            trusted.add_multi_constructor('!userm:', _user_multi)
        try:
            t = trusted('')
            try:
                t.construct_document(_mk(tag, kind))
            except Exception:
                pass
            finally:
                t.dispose()
            cls = pick(lc, LOADERS)
            loader = cls('')
            try:
                obj = loader.construct_document(_mk(tag, kind))
            except yaml.constructor.ConstructorError:
                reach()
                return 'ok'
            except Exception as e:
                return fail(P, exc_sig(e), kind='?', nk=kind, v='')
            finally:
                loader.dispose()
            if lc == 1 or lc == 3:
                reach()
                return 'ok' if type(obj) in (str, list, dict) else 'BASE-TYPE after a trusted load of the same tag'
            return 'LEAK a tag seen by a trusted loader is constructed by %s afterwards' % cls.__name__
        finally:
            if not had:
                del trusted.yaml_multi_constructors['!userm:']
            for c in (yaml.constructor.BaseConstructor,):
                for name, v in list(vars(c).items()):
                    if isinstance(v, dict) and name not in ('yaml_constructors', 'yaml_multi_constructors'):
                        v.clear()       # undo any process-wide cache a change may have introduced


def tables() -> str:
    """Concrete (no symbolic input): the effective tables of the six classes are the closed
    set, compared by identity with SafeConstructor's / BaseConstructor's own functions."""
    SC = yaml.constructor.SafeConstructor
    for cls in (yaml.SafeLoader, yaml.CSafeLoader):
        tab = cls.yaml_constructors
        if set(k for k in tab if k is not None) != CORE:
            return 'TABLE keys of %s: %r' % (cls.__name__, sorted(set(map(str, tab)) ^ set(map(str, CORE)) - {'None'}))
        if tab.get(None) is not SC.construct_undefined:
            return 'TABLE None fallback of %s' % cls.__name__
        for k, f in tab.items():
            if getattr(SC, f.__name__, None) is not f:
                return 'TABLE foreign function %s for %s' % (f.__qualname__, k)
        if cls.yaml_multi_constructors:
            return 'TABLE multi constructors on %s' % cls.__name__
    for cls in (yaml.BaseLoader, yaml.CBaseLoader):
        if cls.yaml_constructors or cls.yaml_multi_constructors:
            return 'TABLE base loader has constructors'
    reach()
    return 'ok'


def selftests():
    return [pymodels.selftest_int_float(), pymodels.selftest_b64(), pymodels.selftest_codecs(), pymodels.selftest_lower()]


def jobs(tier):
    L = 48 if tier == 'quick' else 64
    V = 2 if tier == 'quick' else 3
    js = [
        Job('dispatch', dispatch, [lambda tag, kind, lc: len(tag) <= L and 0 <= kind <= 2 and 0 <= lc <= 3],
            budget=120, bounds='len(tag)<=%d, 3 kinds, 4 classes' % L),
        Job('api', api, [lambda tag, kind, which: len(tag) <= L and 0 <= kind <= 2 and 0 <= which <= 2],
            budget=120, bounds='len(tag)<=%d, 3 kinds, safe_load/safe_load_all/load(SafeLoader)' % L),
        Job('tables', tables, [], budget=30, bounds='concrete table identity check'),
    ]
    js.append(Job('after-registration', after_registration, [lambda op, lc, kind, ctx: 0 <= op <= 5 and 0 <= lc <= 3 and 0 <= kind <= 2 and (ctx == 0 or ctx == 1 or ctx == 8)],
                  budget=200, bounds='6 registration forms that do not target the safe classes x 4 safe/base classes x 3 node kinds x 3 placements'))
    js.append(Job('history', history, [lambda tag_i, first, lc, kind: 0 <= tag_i < len(HISTORY_TAGS) and 0 <= first <= 2 and 0 <= lc <= 3 and 0 <= kind <= 2],
                  budget=200, bounds='trusted load (3 loaders) of one of %d tags, then the 4 safe/base classes on the same tag, 3 node kinds' % len(HISTORY_TAGS)))
    for c in range(16):
        js.append(Job('context/%d' % c, context, [lambda tag, kind, ctx, _c=c: ctx == _c and len(tag) <= L and 0 <= kind <= 2],
                      budget=100, bounds='placement %d, len(tag)<=%d, 3 kinds' % (c, L)))
    js.append(Job('core_value/digit-limit', digit_limit, [lambda n, t: 4296 <= n <= 4305 and 0 <= t < len(SCALAR_KINDS)], budget=120,
                  bounds='every core scalar constructor on a text of 4296..4305 decimal digits (digit count = solver variable)'))
    for t, k in enumerate(SCALAR_KINDS):
        js.append(Job('core_value/' + k, core_value, [lambda t, v, _t=t: t == _t and len(v) <= V],
                      budget=150 if tier == 'quick' else 900, bounds='tag !!%s, len(value)<=%d, all code points' % (k, V)))
    return js
