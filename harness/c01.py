import yaml
from yaml.nodes import ScalarNode, SequenceNode, MappingNode
from symex.hlib import Job, reach, fail, exc_sig, not_a_finding, pick

P = 'C01'
CORE = frozenset('tag:yaml.org,2002:' + x for x in
                 'null bool int float binary timestamp omap pairs set str seq map'.split())

def dispatch(tag: str, kind: int) -> str:
    loader = yaml.SafeLoader('')
    if kind == 0:
        node = ScalarNode(tag, '')
    elif kind == 1:
        node = SequenceNode(tag, [])
    else:
        node = MappingNode(tag, [])
    try:
        obj = loader.construct_document(node)
    except yaml.YAMLError:
        reach()
        return 'ok'
    except Exception as e:
        not_a_finding(e)
        if tag in CORE:
            return 'ok'
        return fail(P, exc_sig(e), tag=tag, kind=kind)
    if tag not in CORE:
        return 'LEAK'
    return 'ok'

def jobs(tier):
    return [Job('dispatch', dispatch, pre=[lambda tag, kind: len(tag) <= 48 and 0 <= kind <= 2], budget=120)]
