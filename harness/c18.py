"""C18 - streams are consumed incrementally and documents delivered as they complete (Py leg)."""
import yaml
from symex.hlib import Job, reach, fail, exc_sig, not_a_finding, pick

P = 'C18'
BLOCK = 4096
ENCODED = ['yaml.scan / parse / compose_all / load_all (generator API, dispose in finally)', 'Reader.update / update_raw (refill on demand)',
           'Scanner.need_more_tokens / fetch_more_tokens / stale_possible_simple_keys (token look-ahead)', 'Parser document loop (parse_document_start / parse_document_end)']
BOUNDS = {'quick': 'streams of 2-3 documents chosen by solver variables among 8 document kinds (empty, 1 character, simple key, flow collection, block scalar, 40 characters, '
                   'closed by "...", closed by "..." then comments) followed by a tail of 3 blocks (9 in the long-stream cells, 17 in the thorough tier) of comments or of further documents - the bound is checked for every document of the tail too -, optionally a malformed last document; '
                   'text and UTF-8 byte streams; the first two read sizes as solver variables; the four generator API functions; abandonment after the first document; one unbroken token of 5000 / 9000 / 17000 characters (33000 and 70000 in the thorough tier) in five token kinds',
          'thorough': 'the same with 4 documents and three symbolic read sizes'}
OUTSIDE = 'C input handler; document sizes are concrete (loops whose trip count grows with the input are a weak target): only the document kinds, the schedule and the tail are solver variables'
ASSUMPTIONS = ['bound checked: when document k is handed to the caller at most end(k) + 2*4096 units have been requested from the stream',
               'the look-ahead mechanism itself (simple keys stale after one line / 1024 characters) is decided as a one-step invariant in C09']

DOCS = ['---\n', '--- a\n', '---\nk: v\n', '--- [a, {b: c}]\n', '--- |\n  lit\n  eral\n', '---\n' + 'w' * 40 + '\n', '--- x\n...\n', '--- y\n...\n# c1\n# c2\n\n']
TAILS = ['# ' + 'c' * 100 + '\n', '--- ' + 'z' * 100 + '\n', '\n' * 50, '---\n- ' + 'q' * 60 + '\n']


class Instrumented:
    def __init__(self, data, sizes):
        self.data, self.sizes = data, list(sizes)
        self.pos = 0
        self.reads = 0
        self.requested = 0

    def read(self, n=-1):
        want = len(self.data) - self.pos if n is None or n < 0 else n
        if self.reads < len(self.sizes) and self.sizes[self.reads] < want:
            want = self.sizes[self.reads]
        self.reads += 1
        out = self.data[self.pos:self.pos + want]
        self.pos += len(out)
        self.requested = self.pos
        return out


class CountingLoader(yaml.SafeLoader):
    disposed = 0

    def dispose(self):
        CountingLoader.disposed += 1
        yaml.SafeLoader.dispose(self)


def _api(api, stream):
    if api == 0:
        return yaml.load_all(stream, Loader=CountingLoader)
    if api == 1:
        return yaml.compose_all(stream, Loader=CountingLoader)
    return yaml.parse(stream, Loader=CountingLoader)


def incremental(d0: int, d1: int, d2: int, n: int, tail: int, nblocks: int, bad: bool, as_bytes: bool, k1: int, k2: int, api: int) -> str:
    docs = [pick(d, DOCS) for d in [d0, d1, d2][:n]]
    t = pick(tail, TAILS)
    reps = (nblocks * BLOCK) // len(t) + 1
    text = ''.join(docs)
    tail_text = t * reps
    # where does document k end?  After its '...' marker if it has one; otherwise a document ends
    # where the next token begins, i.e. at the next '---' (comments and blank lines in between
    # belong to no document, and the scanner has to cross them to learn that the document is over)
    ends = []
    pos = 0
    for i, d in enumerate(docs):
        start = pos
        pos += len(d)
        if '...\n' in d:
            ends.append(start + d.index('...\n') + 4)
        elif i + 1 < len(docs):
            ends.append(pos)
        elif tail == 1 or tail == 3:
            ends.append(pos)                      # the tail starts with '---'
        else:
            ends.append(pos + len(tail_text))     # comments / blank lines up to the next token
    if tail == 1 or tail == 3:
        # the tail is itself a run of documents: each ends where the next '---' begins
        for r in range(reps):
            ends.append(pos + (r + 1) * len(t))
    text += tail_text
    if bad:
        text += '--- "unterminated\n'
    data = text.encode('utf-8') if as_bytes else text
    stream = Instrumented(data, [k1, k2])
    CountingLoader.disposed = 0
    seen = 0
    err = None
    gen = _api(api, stream)
    try:
        if api == 2:
            for ev in gen:
                if isinstance(ev, yaml.DocumentEndEvent):
                    if seen < len(ends) and stream.requested > ends[seen] + 2 * BLOCK:
                        return fail(P, 'EAGER document %d delivered after %d units were requested, it ends at %d' % (seen, stream.requested, ends[seen]), api=api)
                    seen += 1
        else:
            for doc in gen:
                if seen < len(ends) and stream.requested > ends[seen] + 2 * BLOCK:
                    return fail(P, 'EAGER document %d delivered after %d units were requested, it ends at %d' % (seen, stream.requested, ends[seen]), api=api)
                seen += 1
    except yaml.YAMLError as e:
        err = e
    except Exception as e:
        not_a_finding(e)
        return fail(P, exc_sig(e), api=api)
    reach()
    if seen < n:
        return fail(P, 'ORDER only %d of the %d well-formed documents were delivered before %s' % (seen, n, 'the error' if err else 'the end'), api=api)
    if bad and err is None:
        return fail(P, 'the malformed last document was accepted', api=api)
    if not bad and err is not None:
        return fail(P, 'a well-formed stream was rejected: ' + type(err).__name__, api=api)
    if CountingLoader.disposed != 1:
        return fail(P, 'DISPOSE the loader was disposed %d times after the iteration ended' % CountingLoader.disposed, api=api)
    return 'ok'


LONG = [5000, 9000, 17000, 33000, 70000]


def long_token(kind: int, li: int, api: int, as_bytes: bool) -> str:
    """one unbroken token of 1-17 blocks (no white space inside, so the reader cannot drop what it has consumed while the
    token is being scanned) as the first document of a stream that goes on: what is requested from the stream before the
    document is handed over stays within two blocks of its end, whatever the length"""
    L = pick(li, LONG)
    if kind == 0:
        tok = 'w' * L
    elif kind == 1:
        tok = '"' + 'w' * L + '"'
    elif kind == 2:
        tok = "'" + 'w' * L + "'"
    elif kind == 3:
        tok = '!!binary ' + 'QUJD' * (L // 4)
    else:
        tok = '&' + 'a' * L + ' x'
    first = '--- ' + tok + '\n'
    t = '--- ' + 'z' * 100 + '\n'
    reps = (L + 12 * BLOCK) // len(t) + 1
    text = first + t * reps
    ends = [len(first)] + [len(first) + (r + 1) * len(t) for r in range(reps)]
    data = text.encode('utf-8') if as_bytes else text
    stream = Instrumented(data, [])
    CountingLoader.disposed = 0
    seen = 0
    gen = _api(api, stream)
    try:
        for item in gen:
            if api == 2 and not isinstance(item, yaml.DocumentEndEvent):
                continue
            if stream.requested > ends[seen] + 2 * BLOCK:
                return fail(P, 'EAGER document %d delivered after %d units were requested, it ends at %d' % (seen, stream.requested, ends[seen]), api=api)
            seen += 1
    except Exception as e:
        not_a_finding(e)
        return fail(P, exc_sig(e), api=api)
    reach()
    if seen != reps + 1:
        return fail(P, 'ORDER %d documents delivered, the stream has %d' % (seen, reps + 1), api=api)
    return 'ok'


def abandon(d0: int, api: int, how: int, as_bytes: bool, k1: int) -> str:
    """abandoning the iteration releases the loader"""
    text = pick(d0, DOCS) + '--- second\n' + '# c\n' * 3000
    data = text.encode('utf-8') if as_bytes else text
    stream = Instrumented(data, [k1])
    CountingLoader.disposed = 0
    gen = _api(api, stream)
    try:
        first = next(gen)
        served_at_first = stream.requested
        if how == 0:
            gen.close()
        elif how == 1:
            del gen
        else:
            for _ in gen:
                break
            gen.close() if hasattr(gen, 'close') else None
    except Exception as e:
        not_a_finding(e)
        return fail(P, exc_sig(e), api=api)
    reach()
    if served_at_first > len(pick(d0, DOCS)) + len('--- second\n') + 2 * BLOCK:
        return fail(P, 'EAGER the first item was delivered after %d units were requested' % served_at_first, api=api)
    if CountingLoader.disposed != 1:
        return fail(P, 'DISPOSE abandoning the iteration did not dispose the loader (dispose calls: %d)' % CountingLoader.disposed, api=api, how=how)
    return 'ok'


def jobs(tier):
    q = tier == 'quick'
    js = []
    ND = len(DOCS)
    for api in range(3):
        for d in range(ND):
            js.append(Job('incremental/api%d/first=%d' % (api, d), incremental,
                          [lambda d0, d1, d2, n, tail, nblocks, bad, as_bytes, k1, k2, api, _a=api, _d=d:
                           api == _a and d0 == _d and ((d1 == 1 or d1 == 2 or d1 == 6 or d1 == 7) if q else 0 <= d1 < ND) and (d2 == 0 if q else 0 <= d2 < ND) and (n == 2 if q else 2 <= n <= 3) and (0 <= tail <= 1 if q else 0 <= tail <= 3) and
                           nblocks == 3 and (not as_bytes if q else True) and (k1 == 1 or k1 == 5000) and (k2 == 5000 if q else (k2 == 1 or k2 == 5000))],
                          budget=250 if q else 1800, exhaust=q,
                          bounds='%s: first document kind %d, second of %d kinds (4 in the quick tier), tails of 3 blocks (comments / documents; blank lines and block sequences in the thorough tier), malformed last document or not, first read of 1 or 4096 units' % (
                              ['load_all', 'compose_all', 'parse'][api], d, ND)))
    for api in range(3):
        js.append(Job('long-stream/api%d' % api, incremental,
                      [lambda d0, d1, d2, n, tail, nblocks, bad, as_bytes, k1, k2, api, _a=api:
                       api == _a and 0 <= d0 < ND and d1 == 2 and d2 == 0 and n == 2 and (tail == 1 or tail == 3) and nblocks == (9 if q else 17) and not bad and
                       (not as_bytes if q else True) and k1 == 5000 and k2 == 5000],
                      budget=250 if q else 900,
                      bounds='%s: streams of %d blocks of documents behind 2 documents: every document of the stream is delivered with at most two blocks requested beyond its end' % (
                          ['load_all', 'compose_all', 'parse'][api], 9 if q else 17)))
    NL = 3 if q else len(LONG)
    for kd in range(5):
        js.append(Job('long-token/%s' % ['plain', 'double-quoted', 'single-quoted', 'binary', 'anchor'][kd], long_token,
                      [lambda kind, li, api, as_bytes, _k=kd: kind == _k and 0 <= li < NL and 0 <= api <= 2],
                      budget=250 if q else 1500,
                      bounds='first document one unbroken token of %s characters, followed by 12+ blocks of further documents; '
                             '3 API functions x text / UTF-8 bytes: the bound holds for every document' % ', '.join(str(x) for x in LONG[:NL])))
    js.append(Job('abandon', abandon, [lambda d0, api, how, as_bytes, k1: 0 <= d0 < ND and 0 <= api <= 2 and 0 <= how <= 2 and (k1 == 1 or k1 == 5000)],
                  budget=250, bounds='%d first documents x 3 API functions x {close, del, break} x text/bytes x 2 first read sizes' % ND))
    return js
