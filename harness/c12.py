"""C12 - multi-document streams keep their document boundaries (Py leg)."""
import yaml
from yaml.events import *     # noqa
from yaml.nodes import ScalarNode, SequenceNode, MappingNode
from symex.hlib import Job, reach, fail, exc_sig, not_a_finding, pick
from harness.emitlib import Sink, STYLES, BREAKS
from harness.c11 import _canon

P = 'C12'
T = 'tag:yaml.org,2002:'
ENCODED = ['Emitter.expect_document_start / expect_document_end / check_empty_document / write_plain / write_folded / write_literal (open_ended)',
           'Serializer.serialize', 'Parser.parse_document_start / parse_document_end / parse_implicit_document_start',
           'Scanner.check_document_start / check_document_end / scan_plain / scan_flow_scalar document-indicator checks',
           'through yaml.dump_all / serialize_all / emit and yaml.load_all / compose_all / parse']
BOUNDS = {'quick': 'streams of 1..3 documents; each root chosen by a solver variable among 16 value kinds (empty str, open-ended plain, keep-chomped block text, ---/... look-alikes, '
                   'empty and one-element collections, None, a str of one free character over all code points) x explicit_start x explicit_end x version x tags x default_style in 5 x canonical '
                   'x 4 line breaks; node level: 8 root node kinds incl. the empty null scalar; event level: 8 root event kinds x explicit flags per document',
          'thorough': 'same with 3 documents everywhere and the free character in every position'}
OUTSIDE = 'CEmitter / CParser (the LibYAML "empty implicit document dropped" case lives there)'
ASSUMPTIONS = ['dump_all(values) is compared at value level, serialize_all(nodes) at node level, emit(events) at event level',
               'prefix independence: the text of [d1, X] must start with the text of [d1] minus its final "..." line, whatever X is']

VALUES = ['', 'a', 'a\n', 'a\n\n', '\n', '---', '...', '--- a', 'a\n...\nb', [], {}, ['x'], {'k': 'v'}, None, 'a: b', '# c',
          'aaaa ... bbbb', 'aaaa --- bbbb', ['aaaa ... bbbb']]


def _value(k, x):
    if k == len(VALUES):
        return x
    return pick(k, VALUES)


def dump_load(n: int, r0: int, r1: int, r2: int, x: str, estart: bool, eend: bool, ver: bool, tg: bool, style_i: int, canonical: bool, break_i: int, narrow: bool) -> str:
    rs = [r0, r1, r2][:n]
    docs = [_value(k, x) for k in rs]
    opts = dict(explicit_start=estart, explicit_end=eend, version=(1, 1) if ver else None, tags={'!e!': 'tag:e,2000:'} if tg else None,
                default_style=pick(style_i, STYLES), canonical=canonical, line_break=pick(break_i, BREAKS), width=5 if narrow else 80)
    out = Sink()
    try:
        yaml.dump_all(docs, out, Dumper=yaml.SafeDumper, **opts)
        text = out.getvalue()
        back = list(yaml.load_all(text, Loader=yaml.SafeLoader))
    except yaml.YAMLError as e:
        return fail(P, 'REJECTED load_all rejects what dump_all wrote (%s)' % type(e).__name__, n=n, r0=r0, r1=r1)
    except Exception as e:
        not_a_finding(e)
        return fail(P, exc_sig(e), n=n, r0=r0, r1=r1)
    reach()
    if len(back) != len(docs):
        return fail(P, 'COUNT %d documents written, %d read' % (len(docs), len(back)), n=n, r0=r0, r1=r1)
    for a, b in zip(docs, back):
        if type(a) is not type(b) or a != b:
            return fail(P, 'DOCUMENT read back differently', n=n, r0=r0, r1=r1)
    # the text of the first document does not depend on what follows
    if n >= 2:
        o1 = Sink()
        yaml.dump_all(docs[:1], o1, Dumper=yaml.SafeDumper, **opts)
        p1 = o1.getvalue()
        br = opts['line_break'] or '\n'
        if p1.endswith('...' + br) and not eend:
            p1 = p1[:-(3 + len(br))]
        if not text.startswith(p1):
            return fail(P, 'PREFIX the text of the first document depends on the documents that follow', n=n, r0=r0, r1=r1)
    return 'ok'


def _node(k):
    s = lambda v, t='str', st=None: ScalarNode(T + t, v, style=st)
    if k == 0:
        return s('', 'null')                       # what an empty document composes to
    if k == 1:
        return s('')
    if k == 2:
        return s('a')
    if k == 3:
        return s('a\n\n', st='|')
    if k == 4:
        return SequenceNode(T + 'seq', [])
    if k == 5:
        return MappingNode(T + 'map', [])
    if k == 6:
        return s('...', st=None)
    return SequenceNode(T + 'seq', [s('x'), s('', 'null')])


def serialize_compose(n: int, r0: int, r1: int, r2: int, estart: bool, eend: bool, ver: bool) -> str:
    nodes = [_node(k) for k in [r0, r1, r2][:n]]
    want = [_canon(x) for x in nodes]
    out = Sink()
    try:
        yaml.serialize_all(nodes, out, Dumper=yaml.SafeDumper, explicit_start=estart, explicit_end=eend, version=(1, 1) if ver else None)
        text = out.getvalue()
        back = list(yaml.compose_all(text, Loader=yaml.SafeLoader))
    except yaml.YAMLError as e:
        return fail(P, 'REJECTED compose_all rejects what serialize_all wrote', n=n, r0=r0, r1=r1)
    except Exception as e:
        not_a_finding(e)
        return fail(P, exc_sig(e), n=n, r0=r0, r1=r1)
    reach()
    if len(back) != len(nodes):
        return fail(P, 'COUNT %d node graphs written, %d read' % (len(nodes), len(back)), n=n, r0=r0, r1=r1, level='serialize')
    for a, b in zip(want, back):
        if a != (_canon(b) if b is not None else None):
            return fail(P, 'DOCUMENT node graph read back differently', n=n, r0=r0, r1=r1)
    return 'ok'


def _root_events(k):
    S = lambda v, tag=None, impl=(True, False), st=None: ScalarEvent(None, tag, impl, v, style=st)
    if k == 0:
        return [S('')]
    if k == 1:
        return [S('', T + 'null', (True, False))]
    if k == 2:
        return [S('a')]
    if k == 3:
        return [S('a\n\n', None, (True, True), '|')]
    if k == 4:
        return [S('a\n\n', None, (True, True), '>')]
    if k == 5:
        return [SequenceStartEvent(None, None, True), SequenceEndEvent()]
    if k == 6:
        return [MappingStartEvent(None, None, True), S('k'), S(''), MappingEndEvent()]
    if k == 8:
        return [S('a', 'tag:e,2000:foo', (False, False))]        # a tag under the prefix some documents declare with %TAG
    if k == 9:
        return [SequenceStartEvent(None, 'tag:e,2000:seq', False), S('b', 'tag:e,2000:foo', (False, False)), SequenceEndEvent()]
    return [S('---', None, (True, True))]


def emit_parse(n: int, r0: int, r1: int, r2: int, e0: bool, e1: bool, e2: bool, x0: bool, x1: bool, x2: bool, ver1: bool, tg1: bool, tg0: bool = False) -> str:
    """event level: per-document explicit flags, %YAML on the second document, %TAG on the first and / or the second, roots with tags under that prefix"""
    rs, es, xs = [r0, r1, r2][:n], [e0, e1, e2], [x0, x1, x2]
    events = [StreamStartEvent()]
    for i, k in enumerate(rs):
        dv = (1, 1) if (ver1 and i == 1) else None
        dt = {'!e!': 'tag:e,2000:'} if ((tg1 and i == 1) or (tg0 and i == 0)) else None
        events.append(DocumentStartEvent(explicit=es[i], version=dv, tags=dt))
        events += _root_events(k)
        events.append(DocumentEndEvent(explicit=xs[i]))
    events.append(StreamEndEvent())
    out = Sink()
    try:
        yaml.emit(events, out)
        got = list(yaml.parse(out.getvalue()))
    except yaml.YAMLError as e:
        return fail(P, 'REJECTED parse rejects what emit wrote', n=n, r0=r0, r1=r1)
    except Exception as e:
        not_a_finding(e)
        return fail(P, exc_sig(e), n=n, r0=r0, r1=r1)
    reach()
    nd = sum(1 for e in got if isinstance(e, DocumentStartEvent))
    if nd != n:
        return fail(P, 'COUNT %d documents emitted, %d parsed' % (n, nd), n=n, r0=r0, r1=r1, level='emit')
    if len(got) != len(events):
        return fail(P, 'EVENTS %d emitted, %d parsed' % (len(events), len(got)), n=n, r0=r0, r1=r1)
    for a, b in zip(events, got):
        if type(a) is not type(b):
            return fail(P, 'EVENTS differ in kind', n=n, r0=r0, r1=r1)
        if isinstance(a, ScalarEvent) and a.value != b.value:
            return fail(P, 'EVENTS scalar content differs', n=n, r0=r0, r1=r1)
        if isinstance(a, (ScalarEvent, SequenceStartEvent)) and a.tag is not None and a.tag.startswith('tag:e,') and a.tag != b.tag:
            return fail(P, 'EVENTS tag differs', n=n, r0=r0, r1=r1)
        if isinstance(a, DocumentStartEvent) and (a.version != b.version and a.version is not None or (a.tags or None) != (b.tags or None)):
            return fail(P, 'EVENTS directives differ', n=n, r0=r0, r1=r1)
    return 'ok'


def jobs(tier):
    q = tier == 'quick'
    js = []
    NV = len(VALUES)
    for r in range(NV + 1):
        for r1f in ((0, 1, 9) if (q and r == NV) else (None,)):
            js.append(Job('dump/first=%d%s' % (r, '' if r1f is None else '/second=%d' % r1f), dump_load,
                          [lambda n, r0, r1, r2, x, estart, eend, ver, tg, style_i, canonical, break_i, narrow, _r=r, _f=r1f:
                           r0 == _r and (n == 2 if q else 1 <= n <= 3) and (r1 == _f if _f is not None else 0 <= r1 <= (NV - 1 if q else NV)) and
                           0 <= r2 <= (0 if q else NV - 1) and len(x) <= 1 and
                           (style_i == 0 if q else 0 <= style_i <= 4) and (not canonical if q else True) and (break_i == 0 if q else 0 <= break_i <= 3) and
                           ((not ver and not tg) if q else True) and (narrow == (_r >= 16 and _r < NV) if q else True) and
                           ((not estart and not eend) if (q and _r == NV) else True)],
                          budget=200 if q else 1800, exhaust=q,
                          bounds='first root kind %d (%d = a str of one free character), second root of %d kinds, explicit_start x explicit_end%s' % (
                              r, NV, NV, '' if q else ' x version x tags x 5 styles x canonical x 4 line breaks x width {5,80}, 1..3 documents')))
    js.append(Job('dump-options', dump_load,
                  [lambda n, r0, r1, r2, x, estart, eend, ver, tg, style_i, canonical, break_i, narrow:
                   n == 2 and 0 <= r0 <= 3 and 0 <= r1 <= 3 and r2 == 0 and x == '' and 0 <= style_i <= 4 and 0 <= break_i <= 3],
                  budget=60 if q else 1500, exhaust=False,
                  bounds='4 x 4 scalar roots x explicit_start x explicit_end x version x tags x 5 styles x canonical x 4 line breaks'))
    for r in range(8):
        js.append(Job('serialize/first=%d' % r, serialize_compose,
                      [lambda n, r0, r1, r2, estart, eend, ver, _r=r: r0 == _r and 1 <= n <= (2 if q else 3) and 0 <= r1 <= 7 and 0 <= r2 <= (0 if q else 7)],
                      budget=200 if q else 1500, bounds='node graphs: first root kind %d, following roots of 8 kinds, explicit flags, version' % r))
    for r in range(10):
        js.append(Job('emit/first=%d' % r, emit_parse,
                      [lambda n, r0, r1, r2, e0, e1, e2, x0, x1, x2, ver1, tg1, tg0, _r=r:
                       r0 == _r and 1 <= n <= (2 if q else 3) and 0 <= r1 <= 9 and 0 <= r2 <= (0 if q else 9) and (not e2 and not x2 if q else True)],
                      budget=200 if q else 1500, bounds='event streams: first root kind %d, following roots of 10 kinds (two with tags under a %%TAG prefix), explicit start/end flag per document, %%YAML on the second, %%TAG on the first and / or the second' % r))
    return js
