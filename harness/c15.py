"""C15 - dump output honours the formatting options it was given (Py leg)."""
import os
import sys

import yaml
import yaml.reader
from yaml.events import *     # noqa
from yaml.emitter import Emitter
from symex.hlib import Job, reach, fail, exc_sig, not_a_finding, pick, REPO
from harness.emitlib import Sink, STYLES, FLOWS, BREAKS
from harness.c02 import ALPHA, dump_with, PLACEHOLDER

P = 'C15'
ENCODED = ['Emitter.__init__ (option normalisation)', 'Emitter.write_stream_start / write_indicator / write_indent / write_line_break / write_version_directive / write_tag_directive',
           'Emitter.write_plain / write_single_quoted / write_double_quoted / write_folded / write_literal', 'Emitter.analyze_scalar / choose_scalar_style',
           'yaml.dump / dump_all (stream selection, encoding, BOM)', 'Serializer.serialize (directives per document)']
BOUNDS = {'quick': 'a str of one free character over all code points (and 2-character strings over a 34-character class alphabet) placed in 4 contexts x default_style in 5 x '
                   'allow_unicode x 4 line breaks x width {5,80}; option normalisation for ALL integers indent/width (unbounded solver ints); directives and markers for 2 documents '
                   'x explicit_start/end x version x tags; indentation of nested block collections for indent 1..10; canonical output of a value table against the '
                   "repository's independent canonical parser; encoding in {None, utf-8, utf-16-le, utf-16-be} on a value table",
          'thorough': '3-character alphabet strings, all 8 contexts'}
OUTSIDE = 'CEmitter option mapping; encoding on symbolic text (io.BytesIO is C: values are picked from a table there)'
ASSUMPTIONS = ['the canonical parser is tests/legacy_tests/canonical.py of the repository, executed on the emitted text', 'M2/M4e models']

PRINTABLE_ASCII_LO, PRINTABLE_ASCII_HI = ' ', '~'


def check_text(text, allow_unicode, brk):
    """the per-character obligations on raw output"""
    want = brk or '\n'
    i = 0
    n = len(text)
    while i < n:
        ch = text[i]
        if ch == '\r' or ch == '\n':
            if want == '\r\n':
                if not (ch == '\r' and i + 1 < n and text[i + 1] == '\n'):
                    return 'LINE-BREAK a break other than the requested CR LF'
                i += 2
                continue
            if ch != want:
                return 'LINE-BREAK a break other than the requested one'
        elif not allow_unicode and not (PRINTABLE_ASCII_LO <= ch <= PRINTABLE_ASCII_HI):
            return 'NON-ASCII output without allow_unicode'
        i += 1
    return None


def reread(text):
    try:
        r = yaml.reader.Reader(text)
        k = 0
        while r.peek() != '\0':
            r.forward()
            k += 1
            if k > 4000:
                break
    except yaml.reader.ReaderError:
        return 'REREAD the library\'s own reader rejects the output'
    return None


from harness.c02 import CTX_DOCS


def chars(x: str, ctx: int, style_i: int, flow_i: int, allow_unicode: bool, break_i: int, narrow: bool, canonical: bool) -> str:
    opts = dict(default_style=pick(style_i, STYLES), default_flow_style=pick(flow_i, FLOWS), allow_unicode=allow_unicode,
                width=5 if narrow else 80, canonical=canonical, line_break=pick(break_i, BREAKS))
    doc = pick(ctx, CTX_DOCS)(PLACEHOLDER)
    try:
        text = dump_with(doc, x, opts)
    except Exception as e:
        not_a_finding(e)
        return fail(P, 'dump ' + exc_sig(e), ctx=ctx)
    reach()
    r = check_text(text, allow_unicode, opts['line_break']) or reread(text)
    if r:
        return fail(P, r, ctx=ctx, style_i=style_i)
    return 'ok'


def tag_chars(c: str, where: int, allow_unicode: bool, canonical: bool, flow: bool) -> str:
    """the same obligations where the free character sits in a tag, a %TAG prefix, or the suffix of a tag written with a handle
    (tags are never written raw: outside the URI characters they are %-escaped, whatever allow_unicode says)"""
    from yaml.nodes import ScalarNode, SequenceNode
    tags = None
    if where == 0:
        tag = '!x' + c                     # local tag
    elif where == 1:
        tag = 'tag:e,2000:' + c            # verbatim !<...>
    elif where == 2:
        tags = {'!e!': 'tag:e,2000:'}
        tag = 'tag:e,2000:s' + c           # handle + suffix
    else:
        # the character in a %TAG prefix: unit level (the emitter keeps prefixes as dict keys, which the engine can only enumerate)
        try:
            r = Emitter(Sink()).prepare_tag_prefix('tag:e' + c + '/')
        except yaml.YAMLError:
            return 'ok'
        reach()
        r = check_text(r, False, '\n')
        return fail(P, 'TAG ' + r, where=where) if r else 'ok'
    node = SequenceNode('tag:yaml.org,2002:seq', [ScalarNode(tag, 'v')], flow_style=flow)
    out = Sink()
    try:
        yaml.serialize(node, out, allow_unicode=allow_unicode, canonical=canonical, tags=tags, line_break='\n')
    except yaml.YAMLError:
        return 'ok'                        # the emitter may refuse a tag it cannot write
    except Exception as e:
        not_a_finding(e)
        return fail(P, 'dump ' + exc_sig(e), where=where)
    reach()
    text = out.getvalue()
    r = check_text(text, False, '\n') or reread(text)
    if r:
        return fail(P, ('TAG ' + r), where=where)
    return 'ok'          # (that the tag reads back as the same tag is C05's tag-uri cell)


def alpha(i0: int, i1: int, i2: int, n: int, ctx: int, style_i: int, allow_unicode: bool, break_i: int, narrow: bool) -> str:
    x = ''
    ii = [i0, i1, i2]
    for k in range(3):
        if k < n:
            x += pick(ii[k], ALPHA)
    return chars(x, ctx, style_i, 0, allow_unicode, break_i, narrow, False)


def normalise(indent: int, width: int, break_i: int) -> str:
    """option normalisation, for all integers"""
    brk = pick(break_i, [None, '\n', '\r', '\r\n', '', 'x', '\n\r'])
    try:
        em = Emitter(Sink(), indent=indent, width=width, line_break=brk)
    except Exception as e:
        not_a_finding(e)
        return fail(P, exc_sig(e))
    reach()
    if not (2 <= em.best_indent <= 9):
        return 'NORMALISE best_indent out of 2..9'
    if (2 <= indent <= 9) != (em.best_indent == indent) and not (em.best_indent == 2 and indent == 2):
        if 2 <= indent <= 9:
            return 'NORMALISE a requested indent in 2..9 is not honoured'
        if em.best_indent != 2:
            return 'NORMALISE an indent outside 2..9 does not fall back to 2'
    if not (em.best_width > 2 * em.best_indent):
        return 'NORMALISE best_width <= 2*best_indent'
    if width > 2 * em.best_indent and em.best_width != width:
        return 'NORMALISE a usable width is not honoured'
    if em.best_line_break not in ('\r', '\n', '\r\n'):
        return 'NORMALISE line break'
    if brk in ('\r', '\n', '\r\n') and em.best_line_break != brk:
        return 'NORMALISE a valid line break is not honoured'
    return 'ok'


def indent_step(none0: bool, mult: int, best: int, flow: bool, indentless: bool, column: int, whitespace: bool, indention: bool) -> str:
    """One step of the indentation bookkeeping from an ARBITRARY state (unbounded integers): if the
    current indent is None or a multiple of the effective indent, it still is after increase_indent();
    after write_indent() the column equals the indent and what was written is an optional line
    break followed by spaces only."""
    out = Sink()
    try:
        em = Emitter(out, indent=best)
    except Exception as e:
        not_a_finding(e)
        return fail(P, exc_sig(e))
    eff = em.best_indent
    em.indent = None if none0 else mult * eff
    em.column, em.whitespace, em.indention = column, whitespace, indention
    old = em.indent
    try:
        em.increase_indent(flow=flow, indentless=indentless)
        new = em.indent
        em.write_indent()
    except Exception as e:
        not_a_finding(e)
        return fail(P, 'indent ' + exc_sig(e))
    reach()
    if em.indents[-1:] != [old]:
        return 'INDENT the previous indent is not remembered'
    if new is None or new < 0 or new % eff != 0:
        return fail(P, 'INDENT after increase_indent() the indent is not a multiple of the effective indent')
    if old is not None and not (new == old or new == old + eff):
        return fail(P, 'INDENT step is neither 0 nor the effective indent')
    if em.column != new:
        return fail(P, 'INDENT after write_indent() the column is not the indent')
    text = out.getvalue()
    rest = text[1:] if text[:1] == '\n' else text
    for ch in rest:
        if ch != ' ':
            return fail(P, 'INDENT write_indent() wrote something else than a break and spaces')
    return 'ok'


NEST = [{'a': {'b': ['c', {'d': 'e'}], 'f': [['g']]}, 'h': [{'i': 'j', 'k': ['l']}]},
        [{'a': 'b'}, ['c', ['d']], {'e': {'f': 'g'}}],
        {'k': 'line one\nline two\n', 's': ['x\ny\n']}]


def indentation(indent: int, which: int, style_i: int) -> str:
    """every line that starts a block collection entry is indented by a multiple of the effective indent"""
    doc = pick(which, NEST)
    eff = 2
    for i in range(2, 10):
        if indent == i:
            eff = i
    try:
        out = Sink()
        yaml.dump(doc, out, Dumper=yaml.SafeDumper, indent=indent, default_flow_style=False, default_style=pick(style_i, [None, '|']))
        text = out.getvalue()
        back = yaml.safe_load(text)
    except Exception as e:
        not_a_finding(e)
        return fail(P, exc_sig(e), which=which)
    reach()
    if back != doc:
        return fail(P, 'ROUNDTRIP with indent', which=which)
    in_block_scalar_indent = None
    for line in text.split('\n'):
        if not line.strip():
            continue
        lead = len(line) - len(line.lstrip(' '))
        if in_block_scalar_indent is not None:
            if lead >= in_block_scalar_indent:
                continue
            in_block_scalar_indent = None
        body = line.lstrip(' ')
        starts_entry = body.startswith('- ') or body == '-' or (':' in body and not body.startswith(('"', "'", '|', '>')))
        if starts_entry and lead % eff != 0:
            return fail(P, 'INDENT a block entry line is indented by %d, effective indent %d' % (lead, eff), which=which)
        if body.rstrip().endswith(('|', '|-', '|+', '>', '>-', '>+')) or body.rstrip().endswith(tuple('|%d' % k for k in range(1, 10))):
            in_block_scalar_indent = lead + 1
    return 'ok'


def markers(estart: bool, eend: bool, ver: bool, tg: bool, r0: int, r1: int, canonical: bool, style_i: int) -> str:
    """explicit_start / explicit_end / version / tags produce their markers for EVERY document"""
    roots = ['a', '', ['x'], {'k': 'v'}, 'a\n\n', None]
    docs = [pick(r0, roots), pick(r1, roots)]
    out = Sink()
    try:
        yaml.dump_all(docs, out, Dumper=yaml.SafeDumper, explicit_start=estart, explicit_end=eend, version=(1, 1) if ver else None,
                      tags={'!e!': 'tag:e,2000:'} if tg else None, canonical=canonical, default_style=pick(style_i, STYLES))
    except Exception as e:
        not_a_finding(e)
        return fail(P, exc_sig(e), r0=r0)
    reach()
    # the output is text the library's own reader, scanner and parser accept, and it denotes the two documents
    try:
        back = list(yaml.safe_load_all(out.getvalue()))
    except yaml.YAMLError as e:
        return fail(P, 'REREAD the library rejects its own output (%s)' % type(e).__name__, r0=r0, r1=r1)
    if len(back) != 2 or back[0] != docs[0] or back[1] != docs[1]:
        return fail(P, 'REREAD the output does not denote the documents that were dumped', r0=r0, r1=r1)
    lines = out.getvalue().split('\n')
    n = 2
    if estart and sum(1 for l in lines if l == '---' or l.startswith('--- ')) != n:
        return fail(P, 'MARKER explicit_start: not one --- per document', r0=r0, r1=r1)
    if eend and sum(1 for l in lines if l == '...') != n:
        return fail(P, 'MARKER explicit_end: not one ... per document', r0=r0, r1=r1)
    if ver and sum(1 for l in lines if l.startswith('%YAML 1.1')) != n:
        return fail(P, 'MARKER version: not one %YAML per document', r0=r0, r1=r1)
    if tg and sum(1 for l in lines if l.startswith('%TAG !e! tag:e,2000:')) != n:
        return fail(P, 'MARKER tags: not one %TAG per document', r0=r0, r1=r1)
    return 'ok'


TABLE = ['a', 'é', '\U0001f600', 'a b', 'x\ny', '\x85', ' ', '', ['a', 'é'], {'k': 'é', 'j': ['\U0001f600']}, 12, 1.5, None, True]


def long_keys(ci: int, n: int, allow_unicode: bool, flow_i: int, style_i: int) -> str:
    """keys around and beyond the emitter's simple-key limit: the output must be accepted by the library's own reader"""
    ch = pick(ci, ['a', '\xe9', '\x01', "'", ' a', '\U0001f600'])
    m = pick(n, [100, 127, 128, 129, 260, 300, 1100])
    key = (ch * m)[:m]
    over = ch == '\U0001f600' and not allow_unicode and m < 128
    try:
        out = Sink()
        yaml.dump({key: 1}, out, Dumper=yaml.SafeDumper, allow_unicode=allow_unicode, default_flow_style=pick(flow_i, FLOWS), default_style=pick(style_i, [None, "'", '"']))
        back = yaml.safe_load(out.getvalue())
    except yaml.YAMLError as e:
        return fail(P, 'REREAD the library rejects its own output (%s)' % type(e).__name__, long_key_over=over, ci=ci)
    except Exception as e:
        not_a_finding(e)
        return fail(P, exc_sig(e), ci=ci)
    reach()
    if back != {key: 1}:
        return fail(P, 'REREAD the output does not denote the value that was dumped', ci=ci)
    return 'ok'


def encodings(k: int, enc_i: int, allow_unicode: bool) -> str:
    """no stream given: bytes in the requested encoding (UTF-16 with BOM) or str when none was requested"""
    v = pick(k, TABLE)
    enc = pick(enc_i, [None, 'utf-8', 'utf-16-le', 'utf-16-be', 'utf-16', 'UTF-16-LE', 'utf_16_be', 'UTF-8'])
    spelled = enc
    if enc is not None and enc_i >= 5:
        enc = enc.lower().replace('_', '-')      # other spellings of the same codecs
    try:
        ref = yaml.safe_dump(v, allow_unicode=allow_unicode)
        got = yaml.safe_dump(v, allow_unicode=allow_unicode, encoding=spelled)
    except Exception as e:
        return fail(P, exc_sig(e), k=k)
    reach()
    if type(ref) is not str:
        return 'ENCODING result without encoding is not str'
    if enc is None:
        return 'ok' if (type(got) is str and got == ref) else fail(P, 'ENCODING None', k=k)
    if type(got) is not bytes:
        return fail(P, 'ENCODING result with encoding=%s is not bytes' % enc, k=k)
    if enc == 'utf-16':
        # endianness left to the codec: one BOM at the start, then the text
        if got.decode('utf-16') != ref:
            return fail(P, 'ENCODING utf-16 output (endianness not given) does not decode to the str result', k=k, enc_i=enc_i)
    elif enc.startswith('utf-16'):
        bom = b'\xff\xfe' if enc == 'utf-16-le' else b'\xfe\xff'
        if not got.startswith(bom):
            return fail(P, 'ENCODING no BOM in UTF-16 output', k=k, enc_i=enc_i)
        if got[2:].decode(enc) != ref:
            return fail(P, 'ENCODING UTF-16 output does not decode to the str result', k=k)
    elif got.decode('utf-8') != ref:
        return fail(P, 'ENCODING UTF-8 output does not decode to the str result', k=k)
    if yaml.safe_load(got) != v:
        return fail(P, 'ENCODING output does not load back', k=k, enc_i=enc_i)
    return 'ok'


def canonical(k: int, allow_unicode: bool, narrow: bool) -> str:
    """canonical output is accepted by the independent canonical parser and denotes the same events"""
    sys.path.insert(0, os.path.join(REPO, 'tests', 'legacy_tests'))
    try:
        import canonical as canon
    finally:
        sys.path.pop(0)
    v = pick(k, TABLE + [{'a': [1, {'b': None}], 'c': 'x y'}, [[], {}], 'a: b', '- x', '"q"', "it's"])
    out = Sink()
    try:
        yaml.dump(v, out, Dumper=yaml.SafeDumper, canonical=True, allow_unicode=allow_unicode, width=5 if narrow else 80)
        text = out.getvalue()
        ours = list(yaml.parse(text))
        theirs = list(canon.canonical_parse(text))
    except yaml.YAMLError as e:
        return fail(P, 'CANONICAL output rejected (%s)' % type(e).__name__, k=k)
    except Exception as e:
        not_a_finding(e)
        return fail(P, exc_sig(e), k=k)
    reach()
    if len(ours) != len(theirs):
        return fail(P, 'CANONICAL event counts differ', k=k)
    for a, b in zip(ours, theirs):
        if type(a) is not type(b):
            return fail(P, 'CANONICAL event kinds differ', k=k)
        if isinstance(a, ScalarEvent) and (a.value != b.value or a.tag != b.tag):
            return fail(P, 'CANONICAL scalar differs', k=k)
        if isinstance(a, (SequenceStartEvent, MappingStartEvent)) and a.tag != b.tag:
            return fail(P, 'CANONICAL collection tag differs', k=k)
    return 'ok'


def jobs(tier):
    q = tier == 'quick'
    js = []
    for ctx in ((0, 3) if q else (0, 2, 3, 7)):
        for st in range(5):
            for au in (False, True):
                js.append(Job('char/ctx%d/style%d/%s' % (ctx, st, 'unicode' if au else 'ascii'), chars,
                              [lambda x, ctx, style_i, flow_i, allow_unicode, break_i, narrow, canonical, _c=ctx, _s=st, _au=au:
                               ctx == _c and style_i == _s and flow_i == 0 and allow_unicode == _au and len(x) <= 1 and (break_i == 3 if q else 0 <= break_i <= 3) and
                               not narrow and not canonical],
                              budget=200 if q else 900,
                              bounds='str of len<=1 over all code points, context %d, style %r, allow_unicode=%r, line_break %s' % (ctx, STYLES[st], au, 'CRLF' if q else 'all 4')))
    for w in range(4):
        js.append(Job('tag-char/%d' % w, tag_chars,
                      [lambda c, where, allow_unicode, canonical, flow, _w=w: where == _w and len(c) == 1 and not (0xd800 <= ord(c) <= 0xdfff) and (not canonical if q else True)],
                      budget=250 if q else 900,
                      bounds='one free character (every Unicode scalar value) in %s x allow_unicode x block / flow%s: output is printable ASCII that the reader accepts' % (
                          ['a local tag', 'a verbatim tag', 'the suffix of a tag written with a handle', 'a %%TAG prefix (prepare_tag_prefix, unit level)'][w], '' if q else ' x canonical')))
    NA = len(ALPHA)
    AN = 2 if q else 3
    for a in range(NA):
        js.append(Job('alpha/first=%r' % ALPHA[a], alpha,
                      [lambda i0, i1, i2, n, ctx, style_i, allow_unicode, break_i, narrow, _a=a:
                       i0 == _a and 0 <= i1 < NA and 0 <= i2 < NA and n == AN and (ctx == 2 if q else (ctx == 0 or ctx == 2 or ctx == 3)) and 0 <= style_i <= 4 and
                       (break_i == 2 if q else 0 <= break_i <= 3) and not narrow],
                      budget=200 if q else 1500, exhaust=q,
                      bounds='strings of len %d over the class alphabet starting with %r, mapping value, 5 styles, allow_unicode both, line_break %s' % (AN, ALPHA[a], 'CR' if q else 'all 4')))
    js.append(Job('normalise', normalise, [lambda indent, width, break_i: 0 <= break_i <= 6], budget=120,
                  bounds='indent and width: ALL integers (unbounded); 7 line_break values'))
    js.append(Job('indent-step', indent_step, [lambda none0, mult, best, flow, indentless, column, whitespace, indention: 0 <= mult <= 4 and column >= 0 and column <= 12],
                  budget=200, bounds='one increase_indent + write_indent step from an arbitrary state: requested indent ANY integer, current indent None or a multiple (0..4) of the effective indent, column 0..12'))
    js.append(Job('indentation', indentation, [lambda indent, which, style_i: 0 <= indent <= 11 and 0 <= which <= 2 and 0 <= style_i <= 1], budget=200,
                  bounds='3 nested structures x indent 0..11 x {plain, literal} styles'))
    js.append(Job('markers', markers, [lambda estart, eend, ver, tg, r0, r1, canonical, style_i: 0 <= r0 <= 5 and 0 <= r1 <= 5 and (style_i == 0 if q else 0 <= style_i <= 4)],
                  budget=250, bounds='2 documents of 6 root kinds x explicit_start x explicit_end x version x tags x canonical'))
    js.append(Job('long-keys', long_keys, [lambda ci, n, allow_unicode, flow_i, style_i: 0 <= ci <= 5 and 0 <= n <= 6 and 0 <= flow_i <= 1 and 0 <= style_i <= 2],
                  budget=250, bounds='mapping keys of 6 character kinds x length in {100,127,128,129,260,300,1100} x allow_unicode x block/flow x 3 styles'))
    js.append(Job('encodings', encodings, [lambda k, enc_i, allow_unicode: 0 <= k < len(TABLE) and 0 <= enc_i <= 7], budget=150,
                  bounds='%d values x encoding in {None, utf-8, utf-16-le, utf-16-be, utf-16, and the spellings UTF-16-LE, utf_16_be, UTF-8} x allow_unicode' % len(TABLE)))
    js.append(Job('canonical', canonical, [lambda k, allow_unicode, narrow: 0 <= k < len(TABLE) + 6], budget=250,
                  bounds='%d values in canonical form x allow_unicode x width {5,80}, against tests/legacy_tests/canonical.py' % (len(TABLE) + 6)))
    return js
