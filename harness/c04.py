"""C04 - full loading never imports, calls or instantiates what a document names."""
import datetime
import sys
import types

import yaml
import yaml.constructor
from yaml.nodes import ScalarNode, SequenceNode, MappingNode
from symex.hlib import Job, reach, fail, exc_sig, not_a_finding, pick, CONCRETE, no_library_imports
from symex import standins, pymodels
from harness.c01 import CORE_LIST, T, _place

P = 'C04'
PY = T + 'python/'
VALUE_LIKE = [PY + x for x in 'none bool str unicode bytes int long float complex list tuple dict'.split()]
ALLOWED_EXACT = CORE_LIST + VALUE_LIKE
NAME_PREFIX = PY + 'name:'
FORBIDDEN_PREFIXES = [PY + 'object:', PY + 'object/new:', PY + 'object/apply:', PY + 'module:']

ENCODED = ['BaseConstructor.construct_document/construct_object (dispatch: exact, multi-prefix, None fallbacks)',
           'FullConstructor.construct_python_* (value-like), construct_python_name, find_python_name, find_python_module',
           'FullConstructor.make_python_instance / set_python_instance_state (as recorders: must be unreachable)',
           'loader classes FullLoader, CFullLoader (Python halves); yaml.full_load / full_load_all / load(FullLoader)']
BOUNDS = {'quick': 'tag: any str len<=56 over all code points x 3 node kinds x {FullLoader, CFullLoader}; python/name: suffix len<=5; 16 placements',
          'thorough': 'tag len<=72; python/name: suffix len<=7'}
OUTSIDE = 'text -> node for CFullLoader (libyaml); the real sys.modules (replaced by a 3-module stand-in so that membership stays symbolic)'
ASSUMPTIONS = ['M1 placeholder error messages', 'yaml.constructor.sys replaced by a stand-in whose modules dict holds three namespace objects',
               'M7: hasattr/getattr on the stand-in modules compare the symbolic name with dir() of the stand-in',
               '__import__ as seen from yaml.constructor is a recorder']


class Recorder:
    """A callable that remembers having been called (nothing a document names may be called)."""
    def __init__(self, log, name):
        self.log = log
        self.name = name

    def __call__(self, *a, **k):
        self.log.append('CALLED ' + self.name)
        return None


def _live_generator(log):
    """a generator *object* stored in a module: naming it must return it untouched"""
    log.append('ADVANCED a generator object named by the document (m1.y)')
    yield 'item'
    log.append('DRAINED m1.y')


class _LiveIterator:
    """an iterator object that is not a generator"""
    def __init__(self, log):
        self.log = log

    def __iter__(self):
        return self

    def __next__(self):
        self.log.append('ADVANCED an iterator object named by the document (m1.i)')
        raise StopIteration


class FakeModule:
    def __init__(self, name, log, **attrs):
        object.__setattr__(self, '__name__', name)
        names = ['__name__']
        for k, v in attrs.items():
            object.__setattr__(self, k, v)
            names.append(k)
        object.__setattr__(self, '__verif_names__', tuple(names))

    def __setattr__(self, k, v):
        raise AssertionError('stand-in module mutated: ' + k)


class FakeSys:
    def __init__(self, log):
        self.log = log
        self.modules = {
            'm1': FakeModule('m1', log, f=Recorder(log, 'm1.f'), g=3, y=_live_generator(log), i=_LiveIterator(log)),
            'builtins': FakeModule('builtins', log, eval=Recorder(log, 'eval'), len=Recorder(log, 'len')),
            'a.b': FakeModule('a.b', log, h=Recorder(log, 'a.b.h')),
        }


class Contained:
    """yaml.constructor with sys / __import__ / the instantiating helpers replaced by recorders."""
    def __init__(self):
        self.log = []
        self.fs = FakeSys(self.log)

    def __enter__(self):
        yc = yaml.constructor
        self.real_sys = yc.sys
        yc.sys = self.fs
        log = self.log

        def fake_import(name, *a, **k):
            log.append('IMPORT')
            raise ImportError('import attempted')
        yc.__dict__['__import__'] = fake_import
        FC = yc.FullConstructor
        self.saved = {}
        for meth in ('make_python_instance', 'set_python_instance_state', 'find_python_module'):
            self.saved[meth] = FC.__dict__[meth]

            def rec(self_, *a, _m=meth, **k):
                log.append('REACHED ' + _m)
                raise yaml.constructor.ConstructorError(None, None, 'recorder', None)
            setattr(FC, meth, rec)
        self.before = sorted(self.fs.modules)
        return self

    def __exit__(self, *a):
        yc = yaml.constructor
        yc.sys = self.real_sys
        del yc.__dict__['__import__']
        for meth, f in self.saved.items():
            setattr(yc.FullConstructor, meth, f)
        return False

    def violations(self):
        if self.log:
            return self.log[0]
        if sorted(self.fs.modules) != self.before:
            return 'sys.modules changed'
        return None

    def owns(self, obj):
        for m in self.fs.modules.values():
            for n in m.__verif_names__:
                if object.__getattribute__(m, n) is obj:
                    return True
        return False


FULL_TYPES = (type(None), bool, int, float, str, bytes, datetime.date, datetime.datetime, list, dict, set, tuple, complex)
LOADERS = [yaml.FullLoader, yaml.CFullLoader]


def is_allowed_exact(tag):
    for t in ALLOWED_EXACT:
        if tag == t:
            return True
    return False


def _mk(tag, kind):
    if kind == 0:
        return ScalarNode(tag, '')
    elif kind == 1:
        return SequenceNode(tag, [])
    return MappingNode(tag, [])


@no_library_imports(P)
def dispatch(tag: str, kind: int, lc: int) -> str:
    cls = pick(lc, LOADERS)
    node = _mk(tag, kind)
    with Contained() as box:
        loader = cls('')
        outcome = None
        try:
            obj = loader.construct_document(node)
            outcome = 'value'
        except yaml.constructor.ConstructorError:
            outcome = 'rejected'
        except Exception as e:
            not_a_finding(e)
            outcome = 'exc'
            sig = exc_sig(e)
        finally:
            loader.dispose()
        v = box.violations()
        if v:
            return fail(P, v, tag=tag)
        if outcome == 'rejected':
            reach()
            return 'ok'
        if is_allowed_exact(tag):
            # plain / value-like tags: C04 makes no claim about the exception class here
            # (C01/C08 do); only that nothing was imported or called (checked above).
            if outcome == 'value' and type(obj) not in FULL_TYPES:
                return 'TYPE ' + type(obj).__name__
            return 'ok'
        if tag.startswith(NAME_PREFIX):
            if outcome == 'value':
                return 'ok' if box.owns(obj) else 'NAME returned a foreign object'
            return fail(P, 'NAME-EXC ' + sig, tag=tag)
        if outcome == 'value':
            return 'ACCEPTED tag outside the allow-list: ' + type(obj).__name__
        return fail(P, 'EXC-ON-FORBIDDEN ' + sig, tag=tag)


@no_library_imports(P)
def name(x: str, lc: int) -> str:
    """python/name:<x> for every suffix: only an existing attribute of an already imported module."""
    cls = pick(lc, LOADERS)
    node = ScalarNode(NAME_PREFIX + x, '')
    with Contained() as box:
        loader = cls('')
        outcome = None
        try:
            obj = loader.construct_document(node)
            outcome = 'value'
        except yaml.constructor.ConstructorError:
            outcome = 'rejected'
        except Exception as e:
            not_a_finding(e)
            return fail(P, 'NAME-EXC ' + exc_sig(e), x=x)
        finally:
            loader.dispose()
        v = box.violations()
        if v:
            return fail(P, v, tag=NAME_PREFIX + x)
        if outcome == 'rejected':
            return 'ok'
        reach()
        if not box.owns(obj):
            return 'NAME returned an object that is not an attribute of an imported module'
        # which attribute must it be?
        if '.' in x:
            mod, attr = x.rsplit('.', 1)
        else:
            mod, attr = 'builtins', x
        if mod == 'm1' or mod == 'builtins' or mod == 'a.b':
            m = box.fs.modules[mod]
            for n in m.__verif_names__:
                if attr == n:
                    return 'ok' if object.__getattribute__(m, n) is obj else 'NAME resolved to the wrong attribute'
            return 'NAME resolved to an attribute the module does not have'
        return 'NAME resolved in a module that is not in sys.modules'


@no_library_imports(P)
def forbidden(which: int, x: str, kind: int, lc: int) -> str:
    """The four object-construction prefixes with any suffix, on any node kind: ConstructorError."""
    cls = pick(lc, LOADERS)
    tag = pick(which, FORBIDDEN_PREFIXES) + x
    node = _mk(tag, kind)
    with Contained() as box:
        loader = cls('')
        try:
            obj = loader.construct_document(node)
        except yaml.constructor.ConstructorError:
            v = box.violations()
            if v:
                return fail(P, v, tag=tag)
            reach()
            return 'ok'
        except Exception as e:
            not_a_finding(e)
            return fail(P, 'EXC-ON-FORBIDDEN ' + exc_sig(e), x=x)
        finally:
            loader.dispose()
        return 'ACCEPTED ' + tag[:40]


@no_library_imports(P)
def context(tag: str, kind: int, ctx: int) -> str:
    x = _mk(tag, kind)
    root = _place(ctx, x)
    with Contained() as box:
        loader = yaml.FullLoader('')
        outcome = None
        try:
            obj = loader.construct_document(root)
            outcome = 'value'
        except yaml.constructor.ConstructorError:
            outcome = 'rejected'
        except Exception as e:
            not_a_finding(e)
            outcome = 'exc'
            sig = exc_sig(e)
        v = box.violations()
        if v:
            return fail(P, v, tag=tag)
        if outcome == 'rejected':
            reach()
            return 'ok'
        if is_allowed_exact(tag) or tag.startswith(NAME_PREFIX):
            return 'ok'
        if tag == T + 'value' and (ctx == 1 or ctx == 5) and kind == 0:
            return 'ok'
        if outcome == 'exc':
            return fail(P, 'EXC-ON-FORBIDDEN ' + sig, tag=tag, ctx=ctx)
        if ctx == 3 or ctx == 4:
            return fail(P, 'LEAK-MERGE-SOURCE', nk=kind, ctx=ctx)
        return 'ACCEPTED in context %d' % ctx


class _Stubbed:
    def __init__(self, node):
        self.node = node
        self.hit = 0

    def __enter__(self):
        stub = self
        state = {'n': 0}

        def get_single_node(loader):
            stub.hit += 1
            return stub.node

        def check_node(loader):
            return state['n'] == 0

        def get_node(loader):
            state['n'] += 1
            stub.hit += 1
            return stub.node
        yaml.FullLoader.get_single_node = get_single_node
        yaml.FullLoader.check_node = check_node
        yaml.FullLoader.get_node = get_node
        return self

    def __exit__(self, *a):
        for n in ('get_single_node', 'check_node', 'get_node'):
            delattr(yaml.FullLoader, n)
        return False


@no_library_imports(P)
def api(tag: str, kind: int, which: int) -> str:
    x = _mk(tag, kind)
    with Contained() as box, _Stubbed(x) as st:
        outcome = None
        try:
            if which == 0:
                obj = yaml.full_load('')
            elif which == 1:
                obj = list(yaml.full_load_all(''))
            else:
                obj = yaml.load('', Loader=yaml.FullLoader)
            outcome = 'value'
        except yaml.constructor.ConstructorError:
            outcome = 'rejected'
        except Exception as e:
            not_a_finding(e)
            outcome = 'exc'
        if not st.hit:
            return 'STUB-NOT-HIT (entry point is not bound to FullLoader)'
        v = box.violations()
        if v:
            return fail(P, v, tag=tag)
        if outcome == 'rejected':
            reach()
            return 'ok'
        if is_allowed_exact(tag) or tag.startswith(NAME_PREFIX):
            return 'ok'
        return 'ACCEPTED through API %d' % which if outcome == 'value' else 'EXC-ON-FORBIDDEN through API'


def _user_multi(loader, suffix, node):
    return ('user', suffix)


def history(which: int, x: str, first: int, lc: int, kind: int) -> str:
    """a trusted load of a tag, then a full load of the very same tag in the same process: what a
    trusted loader class has seen, matched or cached must not widen what FullLoader accepts"""
    prefix = pick(which, FORBIDDEN_PREFIXES + ['!userm:'])
    tag = prefix + x
    trusted = pick(first, [yaml.UnsafeLoader, yaml.Loader, yaml.CUnsafeLoader])
    had = '!userm:' in trusted.yaml_multi_constructors
    if not had:
        trusted.add_multi_constructor('!userm:', _user_multi)
    try:
        with Contained() as box:
            t = trusted('')
            try:
                t.construct_document(_mk(tag, kind))
            except Exception:
                pass
            finally:
                t.dispose()
            del box.log[:]              # what the trusted loader reached is its own business
            cls = pick(lc, LOADERS)
            loader = cls('')
            outcome = None
            try:
                loader.construct_document(_mk(tag, kind))
                outcome = 'value'
            except yaml.constructor.ConstructorError:
                outcome = 'rejected'
            except Exception as e:
                not_a_finding(e)
                return fail(P, 'EXC-ON-FORBIDDEN ' + exc_sig(e), tag=tag)
            finally:
                loader.dispose()
            v = box.violations()
            if v:
                return 'HISTORY after a trusted load of the same tag: ' + v
            reach()
            if outcome == 'value':
                return 'HISTORY a tag seen by a trusted loader is constructed by %s afterwards' % cls.__name__
            return 'ok'
    finally:
        if not had:
            del trusted.yaml_multi_constructors['!userm:']


def tables() -> str:
    FC = yaml.constructor.FullConstructor
    for cls in LOADERS:
        tab = cls.yaml_constructors
        if set(k for k in tab if k is not None) != set(ALLOWED_EXACT):
            return 'TABLE keys of %s differ: %r' % (cls.__name__, sorted(set(map(str, tab)) ^ set(ALLOWED_EXACT) - {'None'}))
        if list(cls.yaml_multi_constructors) != [NAME_PREFIX]:
            return 'TABLE multi-constructors of %s: %r' % (cls.__name__, list(cls.yaml_multi_constructors))
        if cls.yaml_multi_constructors[NAME_PREFIX] is not FC.construct_python_name:
            return 'TABLE python/name bound to a foreign function'
        for k, f in tab.items():
            if getattr(FC, f.__name__, None) is not f:
                return 'TABLE foreign function %s for %s' % (f.__qualname__, k)
    reach()
    return 'ok'


def selftests():
    return [pymodels.selftest_int_float(), pymodels.selftest_b64(), pymodels.selftest_lower()]


def _tag_ok(tag, L):
    # python/name:<suffix> with a long suffix is the subject of the name/* cells; here the
    # suffix is kept <= 3 characters so that the '.'-splitting does not multiply paths
    return len(tag) <= L and (len(tag) <= len(NAME_PREFIX) + 3 or not tag.startswith(NAME_PREFIX))


def jobs(tier):
    L = 56 if tier == 'quick' else 72
    X = 5 if tier == 'quick' else 7
    js = [
        Job('dispatch', dispatch, [lambda tag, kind, lc: _tag_ok(tag, L) and 0 <= kind <= 2 and 0 <= lc <= 1],
            budget=200, bounds='len(tag)<=%d (python/name: suffix <=3 here), 3 kinds, FullLoader+CFullLoader' % L),
        Job('api', api, [lambda tag, kind, which: _tag_ok(tag, L) and 0 <= kind <= 2 and 0 <= which <= 2],
            budget=200, bounds='len(tag)<=%d, full_load/full_load_all/load(FullLoader)' % L),
        Job('tables', tables, [], budget=30, bounds='concrete table identity check'),
    ]
    for lc in range(2):
        js.append(Job('name/%s' % LOADERS[lc].__name__, name, [lambda x, lc, _l=lc: lc == _l and len(x) <= X],
                      budget=200 if tier == 'quick' else 900, bounds='python/name: + suffix len<=%d' % X))
    for w in range(4):
        js.append(Job('forbidden/%d' % w, forbidden,
                      [lambda which, x, kind, lc, _w=w: which == _w and len(x) <= X and 0 <= kind <= 2 and 0 <= lc <= 1],
                      budget=120, bounds='%s + suffix len<=%d, 3 kinds, 2 classes' % (FORBIDDEN_PREFIXES[w][len(T):], X)))
    js.append(Job('history', history, [lambda which, x, first, lc, kind: 0 <= which <= 4 and len(x) <= 3 and 0 <= first <= 2 and 0 <= lc <= 1 and 0 <= kind <= 2],
                  budget=200, bounds='trusted load (UnsafeLoader / Loader / CUnsafeLoader) of one of the 4 object-building prefixes or a user prefix + suffix len<=3, then FullLoader / CFullLoader on the same tag, 3 node kinds'))
    for c in range(16):
        js.append(Job('context/%d' % c, context, [lambda tag, kind, ctx, _c=c: ctx == _c and _tag_ok(tag, L) and 0 <= kind <= 2],
                      budget=120, bounds='placement %d, len(tag)<=%d, 3 kinds' % (c, L)))
    return js
