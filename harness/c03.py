"""C03 - reading never fails with anything but a YAML error (Py pipeline)."""
import types
import codecs

import yaml
import yaml.reader
from symex.hlib import Job, reach, fail, exc_sig, not_a_finding, pick, CONCRETE
from symex import standins, pymodels
from harness import c09

P = 'C03'
M1 = True
ENCODED = ['Resolver.yaml_implicit_resolvers (every pattern, as a z3 regular expression: termination of the matcher)', 'Reader (all methods; bytes input through the codec models M4)', 'Scanner (all methods)', 'Parser (all methods)', 'Composer',
           'via yaml.scan / yaml.parse / yaml.compose_all']
BOUNDS = {'quick': 'every str len<=2 (all code points); templates: "\\<c><8 hex>" (c, h1..h8 free), %<3>, %YAML <3>, %TAG <1> <2>, '
                   '!<..>, !x!y, !%hh, &xx, *xx, |xx LF yy; indicator soup len<=4; bytes len<=2 through Reader',
          'thorough': 'str len<=3; templates with one more free character; soup len<=5; bytes len<=3'}
OUTSIDE = 'LibYAML back-end; nesting beyond the recursion limit; inputs longer than the bounds except through the templates'
ASSUMPTIONS = ['termination of a pattern match is decided as: no unbounded repetition in the pattern has an ambiguous factorisation (z3 regex query, cvc5 second opinion); polynomial slow-downs from adjacent repetitions are not "hangs" and are not flagged; a satisfiable query counts only if the real matcher then fails to finish in 20 s on the pumped witness',
               'M1/M1b placeholders for error messages', 'M3 int(hex) model', 'M4 codec models in place of the C codecs (differentially self-tested)']

CODECS = types.SimpleNamespace(BOM_UTF16_LE=codecs.BOM_UTF16_LE, BOM_UTF16_BE=codecs.BOM_UTF16_BE,
                               utf_8_decode=pymodels.utf_8_decode, utf_16_le_decode=pymodels.utf_16_le_decode,
                               utf_16_be_decode=pymodels.utf_16_be_decode)


def text(s: str) -> str:
    return c09.run_pipeline(s, P, False)


def soup(k0: int, k1: int, k2: int, k3: int, k4: int, n: int) -> str:
    ks = [k0, k1, k2, k3, k4]
    s = ''
    for i in range(5):
        if i < n:
            s += pick(ks[i], c09.SOUP)
    return c09.run_pipeline(s, P, False)


def compose_only(s):
    """the whole reading pipeline once (compose_all drives reader, scanner, parser, composer)"""
    n = len(s)
    reach()
    try:
        for node in yaml.compose_all(s, Loader=yaml.SafeLoader):
            pass
    except yaml.YAMLError as e:
        r = c09._err_marks(s, e)
        if r:
            return fail(P, r, s=s)
        return 'ok'
    except Exception as e:
        not_a_finding(e)
        return fail(P, 'compose ' + exc_sig(e), s=s)
    return 'ok'


class PathLoader(yaml.SafeLoader):
    """a loader with path resolvers of every element form the API accepts (string key, integer index, None, True / False,
    (node kind, index) pairs) and every target kind: the composer then runs descend_resolver / check_resolver_prefix on each node"""


PathLoader.add_path_resolver('!p1', ['a'])
PathLoader.add_path_resolver('!p2', [0])
PathLoader.add_path_resolver('!p3', [None, 'a'], str)
PathLoader.add_path_resolver('!p4', [True], str)
PathLoader.add_path_resolver('!p5', [False, 1], list)
PathLoader.add_path_resolver('!p6', [(dict, 'a'), (list, 0)], dict)
PathLoader.add_path_resolver('!p7', [(list, None), (dict, None)])
PathLoader.add_path_resolver('!p8', [('a'), 'a', 0], None)


def soup_paths(k0: int, k1: int, k2: int, k3: int, k4: int, n: int) -> str:
    """indicator soup composed through a loader class that has path resolvers registered"""
    ks = [k0, k1, k2, k3, k4]
    s = ''
    for i in range(5):
        if i < n:
            s += pick(ks[i], c09.SOUP)
    reach()
    try:
        for node in yaml.compose_all(s, Loader=PathLoader):
            pass
    except yaml.YAMLError as e:
        r = c09._err_marks(s, e)
        return fail(P, r, s=s) if r else 'ok'
    except Exception as e:
        not_a_finding(e)
        return fail(P, 'compose(path resolvers) ' + exc_sig(e), s=s)
    return 'ok'


def escape(c: str, h: str) -> str:
    """'"\\' + c + h + '"': every escape letter with every 8 following characters"""
    return compose_only('"\\' + c + h + '"')


def template(which: int, x: str, y: str) -> str:
    if which == 0:
        s = '%' + x + y
    elif which == 1:
        s = '%YAML ' + x + y
    elif which == 2:
        s = '%TAG ' + x + ' ' + y
    elif which == 3:
        s = '!<' + x + y + '>'
    elif which == 4:
        s = '!' + x + '!' + y
    elif which == 5:
        s = '!%' + x + '%' + y
    elif which == 6:
        s = '&' + x + y
    elif which == 7:
        s = '*' + x + y
    elif which == 8:
        s = '|' + x + '\n' + y
    elif which == 9:
        s = '>' + x + '\n' + y
    elif which == 10:
        s = '--- ' + x + '\n...' + y
    elif which == 11:
        s = "'" + x + "'" + y
    elif which == 12:
        s = '"' + x + '\\' + y + '"'
    elif which == 13:
        s = '[' + x + ',' + y
    elif which == 14:
        s = '{' + x + ':' + y
    elif which == 15:
        s = '? ' + x + '\n: ' + y
    elif which == 16:
        s = '- ' + x + '\n-' + y
    elif which == 17:
        s = 'a: ' + x + '\n' + y + ': b'
    elif which == 18:
        s = '| ' + x + y                     # header line running into the end of the input
    elif which == 19:
        s = '%YAML 1.1 ' + x + y
    elif which == 20:
        s = '%TAG !a! b ' + x + y
    elif which == 21:
        s = 'k: >- #' + x + y
    else:
        s = '%Z a #' + x + y
    return compose_only(s)


TEMPLATES = ['%xy', '%YAML xy', '%TAG x y', '!<xy>', '!x!y', '!%x%y', '&xy', '*xy', '|x LF y', '>x LF y', '--- x LF ...y',
             "'x'y", '"x\\y"', '[x,y', '{x:y', '? x LF : y', '- x LF -y', 'a: x LF y: b',
             '| xy (to EOF)', '%YAML 1.1 xy', '%TAG !a! b xy', 'k: >- #xy', '%Z a #xy']


def reader_bytes(b: bytes) -> str:
    """Reader over arbitrary bytes: UTF-8/UTF-16 detection, invalid sequences, non-printables."""
    n = len(b)
    try:
        with standins.swap(yaml.reader, 'codecs', CODECS):
            r = yaml.reader.Reader(b)
            k = 0
            while r.peek() != '\0':
                r.forward()
                k += 1
                if k > 8:
                    return 'READER-LOOP'
    except yaml.reader.ReaderError as e:
        reach()
        if not (0 <= e.position <= n):
            return 'ERRPOS-RANGE'
        return 'ok'
    except Exception as e:
        not_a_finding(e)
        return fail(P, 'reader ' + exc_sig(e))
    return 'ok'


def bytes_pipeline(b: bytes) -> str:
    """the whole pipeline on arbitrary bytes"""
    n = len(b)
    try:
        with standins.swap(yaml.reader, 'codecs', CODECS):
            for node in yaml.compose_all(b, Loader=yaml.SafeLoader):
                pass
    except yaml.YAMLError as e:
        reach()
        if isinstance(e, yaml.reader.ReaderError) and not (0 <= e.position <= n):
            return 'ERRPOS-RANGE'
        return 'ok'
    except Exception as e:
        not_a_finding(e)
        return fail(P, 'bytes ' + exc_sig(e))
    return 'ok'



def _timed(code, timeout):
    """run `code` in a fresh interpreter of the library under test; -> True if it finished"""
    import subprocess
    import sys
    from symex import hlib
    try:
        subprocess.run(['/venv/bin/python', '-c', 'import sys; sys.path.insert(0, %r)\n%s' % (hlib.REPO_LIB, code)], timeout=timeout, capture_output=True)
        return True
    except subprocess.TimeoutExpired:
        return False


HANG_S = 20


def resolve_terminates(s):
    """composing the plain scalar `s` (Resolver.resolve on its text, then the whole pipeline) finishes"""
    reach()
    if not _timed('import yaml\nyaml.SafeLoader("").resolve(yaml.ScalarNode, %r, (True, False))' % s, HANG_S):
        return fail(P, 'HANG Resolver.resolve does not finish within %d s on a %d-character scalar' % (HANG_S, len(s)), s=s)
    if not _timed('import yaml\ntry:\n    yaml.compose(%r)\nexcept yaml.YAMLError:\n    pass' % s, HANG_S):
        return fail(P, 'HANG yaml.compose does not finish within %d s on a %d-character input' % (HANG_S, len(s)), s=s)
    return 'ok'


def smt_checks(tier):
    """Termination of the implicit-resolver matchers: every unbounded repetition in every pattern
    the composer runs on untrusted scalars is unambiguous (see smt/rex.py), so the backtracking
    matcher is never forced through exponentially many factorisations."""
    from smt import rex
    res = []
    seen = {}
    for ch, lst in sorted(yaml.resolver.Resolver.yaml_implicit_resolvers.items(), key=lambda kv: repr(kv[0])):
        for tag, rx in lst:
            seen.setdefault((tag, rx.pattern), rx)
    for (tag, _), rx in sorted(seen.items()):
        short = tag.rsplit(':', 1)[-1]
        try:
            reps = rex.repeats(rx)
        except rex.Unsupported as e:
            res.append({'name': 'regex-termination/%s' % short, 'status': 'inconclusive', 'seconds': 0, 'witness': str(e)})
            continue
        for path, pre, body, alts in reps:
            st, w, dt, n = rex.ambiguous_repeat(pre, body, alts)
            q = {'name': 'regex-termination/%s%s' % (short, path), 'seconds': round(dt, 3), 'checks': n}
            if st == 'unsat':
                q['status'] = 'held'
            elif st == 'sat':
                prefix, word = w
                q['status'] = 'inconclusive'
                q['witness'] = 'ambiguous repetition (%r then %r repeated) but the matcher finishes on it' % (prefix, word)
                for tail in ['x', '_', '~', '\x01']:
                    t = prefix + word * 40 + tail
                    if not _timed('import yaml\nyaml.SafeLoader("").resolve(yaml.ScalarNode, %r, (True, False))' % t, HANG_S):
                        q['status'] = 'violated'
                        q['witness'] = t
                        q['replay'] = {'module': 'c03', 'fn': 'resolve_terminates', 'args': '{%r: %r}' % ('s', t)}
                        break
            else:
                q['status'] = 'inconclusive'
                q['witness'] = st
            res.append(q)
    return res

def selftests():
    return [pymodels.selftest_codecs(), pymodels.selftest_int_float()]


ESC_CELLS = [('x', lambda c: c == 'x'), ('u', lambda c: c == 'u'), ('U', lambda c: c == 'U'),
             ('lt-x', lambda c: c < 'U'), ('mid', lambda c: 'U' < c < 'u'), ('v-w', lambda c: 'u' < c < 'x'), ('gt-x', lambda c: c > 'x')]


def jobs(tier):
    q = tier == 'quick'
    js = c09.text_jobs(text, tier)
    SN = 4 if q else 5
    for k in range(len(c09.SOUP)):
        js.append(Job('soup/%r' % c09.SOUP[k], soup,
                      [lambda k0, k1, k2, k3, k4, n, _k=k: k0 == _k and 1 <= n <= SN and 0 <= k1 < 11 and 0 <= k2 < 11 and 0 <= k3 < 11 and 0 <= k4 < 11],
                      budget=200 if q else 1500, exhaust=q, bounds='strings of len<=%d over %r starting with %r' % (SN, c09.SOUP, c09.SOUP[k])))
    for k in range(len(c09.SOUP)):
        js.append(Job('soup-path-resolvers/%r' % c09.SOUP[k], soup_paths,
                      [lambda k0, k1, k2, k3, k4, n, _k=k: k0 == _k and 1 <= n <= SN and 0 <= k1 < 11 and 0 <= k2 < 11 and 0 <= k3 < 11 and 0 <= k4 < 11],
                      budget=200 if q else 1500, exhaust=q,
                      bounds='strings of len<=%d over %r starting with %r, composed by a loader class with 8 registered path resolvers (every path element form)' % (SN, c09.SOUP, c09.SOUP[k])))
    for name, pred in ESC_CELLS:
        hl = 8 if name == 'U' else 4 if name == 'u' else 2 if name == 'x' else 1
        js.append(Job('escape/' + name, escape, [lambda c, h, _p=pred, _hl=hl: len(c) == 1 and _p(c) and len(h) == _hl],
                      budget=(80 if name == 'U' else 200) if q else 1500, exhaust=(name not in ('U',)),
                      bounds='"\\\\<c><%d free chars>" with c in class %s' % (hl, name)))
    YL = 0 if q else 1
    for w, tname in enumerate(TEMPLATES):
        js.append(Job('template/' + tname, template, [lambda which, x, y, _w=w: which == _w and len(x) <= 1 and len(y) <= YL],
                      budget=120 if q else 1800, bounds='template %s with len(x)<=1, len(y)<=%d over all code points' % (tname, YL)))
    BL = 2 if q else 3
    for name, lo, hi in [('ascii', 0, 0x80), ('cont', 0x80, 0xc2), ('lead2', 0xc2, 0xe0), ('lead3', 0xe0, 0xf0), ('lead4+', 0xf0, 0x100)]:
        js.append(Job('reader-bytes/' + name, reader_bytes, [lambda b, _lo=lo, _hi=hi: 1 <= len(b) <= BL and _lo <= b[0] < _hi],
                      budget=250 if q else 1500, bounds='bytes len<=%d, b[0] in 0x%02X..0x%02X' % (BL, lo, hi - 1)))
        js.append(Job('bytes-pipeline/' + name, bytes_pipeline, [lambda b, _lo=lo, _hi=hi: 1 <= len(b) <= BL and _lo <= b[0] < _hi],
                      budget=250 if q else 1500, bounds='bytes len<=%d, b[0] in 0x%02X..0x%02X' % (BL, lo, hi - 1)))
    return js
