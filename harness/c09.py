"""C09 - tokens and events are grammatical and their positions are true (Py pipeline).
The exploration functions are shared with C03 (same inputs, different postcondition)."""
import yaml
from yaml.tokens import *   # noqa
from yaml.events import *   # noqa
from yaml.error import Mark
from yaml.parser import Parser, ParserError
from symex.hlib import Job, reach, fail, exc_sig, not_a_finding, pick
from spec import grammar

P = 'C09'
M1 = True
ENCODED = ['Reader.__init__/check_printable/peek/prefix/forward/get_mark (str input)', 'Scanner (all fetch_*/scan_* methods, simple-key bookkeeping, indentation stack)',
           'Parser (all parse_* states, process_directives)', 'Scanner.need_more_tokens / stale_possible_simple_keys / next_possible_simple_key as one step from an arbitrary state', 'via yaml.scan / yaml.parse; Parser alone over a stub token source']
BOUNDS = {'quick': 'every str s with len(s)<=2 over all code points (15 cells by class of s[0]); indicator alphabet len<=4; '
                   'parser alone over every sequence of <=3 tokens of the 18 kinds',
          'thorough': 'len(s)<=3 over all code points; indicator alphabet len<=5; parser alone over <=4 tokens'}
OUTSIDE = 'LibYAML marks; inputs longer than the bounds except through the templates'
ASSUMPTIONS = ['M1/M1b: error-message formatting replaced by a placeholder (messages are not compared here)']

# cells: class of the first character, by code point range [lo, hi)
FIRST = [('ctl', 0, 0x20), ('sp-quote', 0x20, 0x23), ('#-amp', 0x23, 0x27), ("'-comma", 0x27, 0x2d), ('-./', 0x2d, 0x30),
         ('digit', 0x30, 0x3a), (':-@', 0x3a, 0x41), ('A-Z', 0x41, 0x5b), ('[-`', 0x5b, 0x61), ('a-z', 0x61, 0x7b),
         ('{-del', 0x7b, 0x80), ('c1-nel', 0x80, 0xa0), ('latin-bmp', 0xa0, 0x2028), ('ls-bom', 0x2028, 0xff00), ('high', 0xff00, 0x110000)]


def _tok_marks(s, toks):
    """positions of every token are true"""
    n = len(s)
    last = 0
    for t in toks:
        a, b = t.start_mark, t.end_mark
        if not (0 <= a.index <= b.index <= n):
            return 'MARK-RANGE %s %d..%d of %d' % (type(t).__name__, a.index, b.index, n)
        if a.index < last:
            # start_1 <= end_1 <= start_2 <= end_2 ...: a token never starts before the
            # previous one ended (this is what pins the retroactive KEY insertion index)
            return 'MARK-BACKWARDS %s starts at %d before the previous token ended at %d' % (type(t).__name__, a.index, last)
        last = b.index
        for m in (a, b):
            l, c = grammar.linecol(s, m.index)
            if m.line != l or m.column != c:
                return 'MARK-LINECOL %s index %d: (%d,%d) recount (%d,%d)' % (type(t).__name__, m.index, m.line, m.column, l, c)
        if isinstance(t, (AnchorToken, AliasToken)):
            if s[a.index + 1:b.index] != t.value:
                return 'MARK-TEXT %s' % type(t).__name__
        if isinstance(t, ScalarToken) and t.plain and a.line == b.line:
            if s[a.index:b.index] != t.value:
                return 'MARK-TEXT plain scalar'
    return None


def _err_marks(s, e):
    n = len(s)
    for m in (getattr(e, 'context_mark', None), getattr(e, 'problem_mark', None)):
        if m is None:
            continue
        if not (0 <= m.index <= n):
            return 'ERRMARK-RANGE %d of %d' % (m.index, n)
        l, c = grammar.linecol(s, m.index)
        if m.line != l or m.column != c:
            return 'ERRMARK-LINECOL index %d: (%d,%d) recount (%d,%d)' % (m.index, m.line, m.column, l, c)
    if isinstance(e, yaml.reader.ReaderError):
        if not (0 <= e.position <= n):
            return 'ERRPOS-RANGE %d of %d' % (e.position, n)
    return None


def _ev_marks(s, evs):
    n = len(s)
    last = 0
    for e in evs:
        a, b = e.start_mark, e.end_mark
        if not (0 <= a.index <= b.index <= n):
            return 'EVMARK-RANGE %s %d..%d of %d' % (type(e).__name__, a.index, b.index, n)
        if a.index < last:
            return 'EVMARK-BACKWARDS %s' % type(e).__name__
        last = a.index
        for m in (a, b):
            l, c = grammar.linecol(s, m.index)
            if m.line != l or m.column != c:
                return 'EVMARK-LINECOL %s' % type(e).__name__
    return None


def run_pipeline(s, prop, check_positions):
    """scan, parse, compose `s` with the real library.  Returns a verdict.
    prop C03: only YAML errors, marks inside the input.
    prop C09: additionally grammar + exact positions."""
    toks = []
    scanned = False
    try:
        for t in yaml.scan(s, Loader=yaml.SafeLoader):
            toks.append(t)
        scanned = True
    except yaml.YAMLError as e:
        r = _err_marks(s, e)
        if r:
            return fail(prop, r, s=s)
    except Exception as e:
        not_a_finding(e)
        return fail(prop, 'scan ' + exc_sig(e), s=s)
    evs = []
    parsed = False
    try:
        for ev in yaml.parse(s, Loader=yaml.SafeLoader):
            evs.append(ev)
        parsed = True
    except yaml.YAMLError as e:
        if scanned and not isinstance(e, ParserError):
            return fail(prop, 'parse raised %s although the input scans' % type(e).__name__, s=s)
        r = _err_marks(s, e)
        if r:
            return fail(prop, r, s=s)
    except Exception as e:
        not_a_finding(e)
        return fail(prop, 'parse ' + exc_sig(e), s=s)
    if parsed and not scanned:
        return fail(prop, 'parses but does not scan', s=s)
    try:
        for node in yaml.compose_all(s, Loader=yaml.SafeLoader):
            pass
    except yaml.YAMLError as e:
        r = _err_marks(s, e)
        if r:
            return fail(prop, r, s=s)
    except Exception as e:
        not_a_finding(e)
        return fail(prop, 'compose ' + exc_sig(e), s=s)
    if scanned:
        reach()
    if not check_positions:
        return 'ok'
    if scanned:
        # the token API driven the other ways the class offers: get_token() alone, and peek_token() + get_token()
        for drive in (0, 1):
            loader = yaml.SafeLoader(s)
            alt = []
            try:
                while True:
                    if drive == 1:
                        loader.peek_token()
                    t = loader.get_token()
                    if t is None:
                        break
                    alt.append(t)
                    if isinstance(t, yaml.StreamEndToken):
                        break
            except Exception as e:
                not_a_finding(e)
                return fail(prop, 'TOKEN-API %s raises %s on an input that scans' % (['get_token()', 'peek_token() + get_token()'][drive], type(e).__name__), s=s)
            finally:
                loader.dispose()
            if [(type(t).__name__, t.start_mark.index, t.end_mark.index) for t in alt] != [(type(t).__name__, t.start_mark.index, t.end_mark.index) for t in toks]:
                return fail(prop, 'TOKEN-API %s yields another token sequence than scan()' % ['get_token()', 'peek_token() + get_token()'][drive], s=s)
    if scanned or toks:
        r = grammar.check_tokens([type(t).__name__ for t in toks], parsed)
        if r:
            return fail(prop, 'TOKEN-GRAMMAR ' + r, s=s)
        r = _tok_marks(s, toks)
        if r:
            return fail(prop, r, s=s)
    if parsed:
        r = grammar.check_events([type(e).__name__ for e in evs])
        if r:
            return fail(prop, 'EVENT-GRAMMAR ' + r, s=s)
    r = _ev_marks(s, evs)
    if r:
        return fail(prop, r, s=s)
    return 'ok'


def text(s: str) -> str:
    return run_pipeline(s, P, True)


SOUP = '[]{},:?-a \n'


def soup(k0: int, k1: int, k2: int, k3: int, k4: int, n: int) -> str:
    """indicator soup: the parser state machine behind the real scanner"""
    ks = [k0, k1, k2, k3, k4]
    s = ''
    for i in range(5):
        if i < n:
            s += pick(ks[i], SOUP)
    return run_pipeline(s, P, True)


# --------------------------------------------------------------------- parser alone
KINDS = ['DocumentStart', 'DocumentEnd', 'BlockSequenceStart', 'BlockMappingStart', 'BlockEnd', 'FlowSequenceStart',
         'FlowMappingStart', 'FlowSequenceEnd', 'FlowMappingEnd', 'Key', 'Value', 'BlockEntry', 'FlowEntry',
         'Alias', 'Anchor', 'Tag', 'Scalar', 'Directive']


def _mk_token(k, i):
    # token i occupies [3i, 3i+2): there is a gap between consecutive tokens, as in real text
    m = Mark('x', 3 * i, 0, 3 * i, None, None)
    m2 = Mark('x', 3 * i + 2, 0, 3 * i + 2, None, None)
    name = pick(k, KINDS)
    if name == 'Alias':
        return AliasToken('a', m, m2)
    if name == 'Anchor':
        return AnchorToken('a', m, m2)
    if name == 'Tag':
        return TagToken(('!', 't'), m, m2)
    if name == 'Scalar':
        return ScalarToken('v', True, m, m2)
    if name == 'Directive':
        return DirectiveToken('YAML', (1, 1), m, m2)
    return globals()[name + 'Token'](m, m2)


class LazySource(Parser):
    """Parser fed by a stub token source; tokens are materialised when the parser asks
    for them, so a path ends at the parser's first error."""
    def __init__(self, kinds, n):
        Parser.__init__(self)
        self.kinds = kinds
        self.n = n
        self.pos = 0
        self.cur = None

    def _cur(self):
        if self.cur is None:
            i = self.pos
            if i == 0:
                m = Mark('x', 0, 0, 0, None, None)
                self.cur = StreamStartToken(m, m)
            elif i <= self.n:
                self.cur = _mk_token(self.kinds[i - 1], i)
            elif i == self.n + 1:
                m = Mark('x', 3 * i, 0, 3 * i, None, None)
                self.cur = StreamEndToken(m, m)
            else:
                self.cur = False
        return self.cur

    def check_token(self, *choices):
        t = self._cur()
        if t:
            if not choices:
                return True
            for c in choices:
                if isinstance(t, c):
                    return True
        return False

    def peek_token(self):
        return self._cur() or None

    def get_token(self):
        t = self._cur()
        if t:
            self.pos += 1
            self.cur = None
            return t
        return None


def _run_parser(kind_names, symbolic_kinds, nsym):
    """Feed the real Parser lazily with STREAM-START, the concrete prefix `kind_names`, `nsym`
    symbolic tokens and STREAM-END.  -> (events, outcome, names) with outcome 'ok' or ('error', index
    of the token the parser was looking at when it gave up)"""
    class Src(LazySource):
        def _cur(self):
            if self.cur is None:
                i = self.pos
                if i == 0:
                    m = Mark('x', 0, 0, 0, None, None)
                    self.cur = StreamStartToken(m, m)
                elif i <= len(kind_names):
                    self.cur = _mk_token(KINDS.index(kind_names[i - 1]), i)
                    self.names.append(kind_names[i - 1])
                elif i <= len(kind_names) + nsym:
                    k = symbolic_kinds[i - 1 - len(kind_names)]
                    self.cur = _mk_token(k, i)
                    self.names.append(pick(k, KINDS))
                elif i == len(kind_names) + nsym + 1:
                    m = Mark('x', 3 * i, 0, 3 * i, None, None)
                    self.cur = StreamEndToken(m, m)
                    self.names.append('StreamEnd')
                else:
                    self.cur = False
            return self.cur
    p = Src([], 0)
    p.names = ['StreamStart']
    evs = []
    try:
        while p.check_event():
            evs.append(p.get_event())
    except ParserError:
        return evs, ('error', p.pos), p
    return evs, 'ok', p


def _check_events_and_marks(evs, p):
    r = grammar.check_events([type(e).__name__ for e in evs])
    if r:
        return 'EVENT-GRAMMAR ' + r
    if p.states or p.marks:
        return 'PARSER-STACKS not empty at STREAM-END'
    last = 0
    for e in evs:
        if e.start_mark.index < last or e.end_mark.index < e.start_mark.index:
            return 'EVMARK-ORDER %s starts at %d, ends at %d, previous event started at %d' % (type(e).__name__, e.start_mark.index, e.end_mark.index, last)
        last = e.start_mark.index
    return None


def _dup_directive(names, ref, outcome):
    # a duplicate %YAML directive is a content error found after the second directive token has been
    # consumed: the parser's position is one token further than the reference's
    return ref[1] < len(names) and names[ref[1]] == 'Directive' and outcome[1] == ref[1] + 1


def parser_alone(n: int, k0: int, k1: int, k2: int, k3: int) -> str:
    """every token sequence of length n between STREAM-START and STREAM-END: the parser accepts exactly
    the sentences of the documented grammar, gives up at the first token that cannot continue one, and
    what it emits is grammatical with ordered marks"""
    try:
        evs, outcome, p = _run_parser([], [k0, k1, k2, k3], n)
    except Exception as e:
        not_a_finding(e)
        return fail(P, 'parser ' + exc_sig(e), n=n)
    names = p.names
    if outcome == 'ok':
        reach()
        ref = grammar.recognise(names)
        if ref[0] != 'ok':
            return fail(P, 'TOKEN-GRAMMAR the parser accepted a token sequence outside the documented grammar (first bad token %s)' % (ref[1],), n=n)
        r = _check_events_and_marks(evs, p)
        return fail(P, r, n=n) if r else 'ok'
    # rejected: the reference must reject the tokens served so far at the same token
    ref = grammar.recognise(names)
    if ref[0] == 'ok':
        return fail(P, 'TOKEN-GRAMMAR the parser rejected a sentence of the documented grammar', n=n)
    if ref[1] != outcome[1] and not _dup_directive(names, ref, outcome):
        return fail(P, 'TOKEN-GRAMMAR the parser gave up at token %d, the grammar is violated at token %d' % (outcome[1], ref[1]), n=n)
    r = _check_events_and_marks(evs, p) if False else None
    return 'ok'


# concrete token prefixes that put the parser into each of its states; two free tokens follow
PREFIXES = [
    [], ['DocumentStart'], ['Directive'], ['Directive', 'DocumentStart'], ['Scalar'], ['Scalar', 'DocumentEnd'], ['DocumentStart', 'Scalar', 'DocumentEnd'],
    ['Tag'], ['Anchor'], ['Tag', 'Anchor'], ['Anchor', 'Tag'],
    ['BlockSequenceStart'], ['BlockSequenceStart', 'BlockEntry'], ['BlockSequenceStart', 'BlockEntry', 'Scalar'],
    ['BlockMappingStart'], ['BlockMappingStart', 'Key'], ['BlockMappingStart', 'Key', 'Scalar'], ['BlockMappingStart', 'Key', 'Scalar', 'Value'],
    ['BlockMappingStart', 'Key', 'Scalar', 'Value', 'Scalar'], ['BlockMappingStart', 'Key', 'BlockEntry'], ['BlockMappingStart', 'Key', 'Scalar', 'Value', 'BlockEntry'],
    ['BlockMappingStart', 'Key', 'Scalar', 'Value', 'BlockEntry', 'Scalar'],
    ['FlowSequenceStart'], ['FlowSequenceStart', 'Scalar'], ['FlowSequenceStart', 'Scalar', 'FlowEntry'], ['FlowSequenceStart', 'Key'],
    ['FlowSequenceStart', 'Key', 'Scalar'], ['FlowSequenceStart', 'Key', 'Scalar', 'Value'], ['FlowSequenceStart', 'Key', 'Scalar', 'Value', 'Scalar'],
    ['FlowSequenceStart', 'Key', 'Value'],
    ['FlowMappingStart'], ['FlowMappingStart', 'Scalar'], ['FlowMappingStart', 'Scalar', 'FlowEntry'], ['FlowMappingStart', 'Key'],
    ['FlowMappingStart', 'Key', 'Scalar'], ['FlowMappingStart', 'Key', 'Scalar', 'Value'], ['FlowMappingStart', 'Key', 'Scalar', 'Value', 'Scalar'],
    ['FlowMappingStart', 'Key', 'Value'], ['FlowMappingStart', 'Key', 'Scalar', 'Value', 'Tag'],
    ['BlockSequenceStart', 'BlockEntry', 'FlowMappingStart', 'Key', 'Scalar', 'Value'], ['FlowSequenceStart', 'FlowMappingStart', 'Key', 'Scalar', 'Value'],
]


def parser_state(pi: int, n: int, k0: int, k1: int, k2: int) -> str:
    """one step (up to three tokens) of the parser from each of its states, reached by a concrete prefix"""
    prefix = pick(pi, PREFIXES)
    try:
        evs, outcome, p = _run_parser(prefix, [k0, k1, k2], n)
    except Exception as e:
        not_a_finding(e)
        return fail(P, 'parser ' + exc_sig(e), pi=pi)
    names = p.names
    ref = grammar.recognise(names)
    if outcome == 'ok':
        reach()
        if ref[0] != 'ok':
            return fail(P, 'TOKEN-GRAMMAR the parser accepted a token sequence outside the documented grammar (first bad token %s)' % (ref[1],), pi=pi)
        r = _check_events_and_marks(evs, p)
        return fail(P, r, pi=pi) if r else 'ok'
    reach()
    if ref[0] == 'ok':
        return fail(P, 'TOKEN-GRAMMAR the parser rejected a sentence of the documented grammar', pi=pi)
    if ref[1] != outcome[1] and not _dup_directive(names, ref, outcome):
        return fail(P, 'TOKEN-GRAMMAR the parser gave up at token %d, the grammar is violated at token %d' % (outcome[1], ref[1]), pi=pi)
    # the events produced before the error still carry ordered marks
    last = 0
    for e in evs:
        if e.start_mark.index < last or e.end_mark.index < e.start_mark.index:
            return fail(P, 'EVMARK-ORDER before the error', pi=pi)
        last = e.start_mark.index
    return 'ok'


def simple_key_step(line: int, index: int, k0_line: int, k0_index: int, k0_tok: int, k0_req: bool, k1_line: int, k1_index: int, k1_tok: int, k1_req: bool,
                    nkeys: int, taken: int, ntoks: int) -> str:
    """One step of the simple-key bookkeeping from an ARBITRARY state (unbounded integers): after
    stale_possible_simple_keys() every surviving candidate is on the current line and at most 1024
    characters back - which is what bounds the scanner's token look-ahead whatever follows -, a stale
    *required* key is a ScannerError, and need_more_tokens() asks for more exactly when the queue is
    empty or its head may still become a key."""
    from yaml.scanner import SimpleKey, ScannerError
    ld = yaml.SafeLoader('')
    ld.line, ld.index, ld.column = line, index, 0
    ld.tokens_taken = taken
    m = Mark('x', 0, 0, 0, None, None)
    ld.tokens = [ScalarToken('t', True, m, m) for _ in range(3)][:ntoks]
    keys = {}
    if nkeys >= 1:
        keys[0] = SimpleKey(k0_tok, k0_req, k0_index, k0_line, 0, m)
    if nkeys >= 2:
        keys[1] = SimpleKey(k1_tok, k1_req, k1_index, k1_line, 0, m)
    ld.possible_simple_keys = keys
    before = dict(keys)
    stale0 = k0_line != line or index - k0_index > 1024
    stale1 = k1_line != line or index - k1_index > 1024
    must_raise = (nkeys >= 1 and stale0 and k0_req) or (nkeys >= 2 and stale1 and k1_req)
    try:
        more = ld.need_more_tokens()
    except ScannerError:
        reach()
        return 'ok' if (must_raise and ntoks > 0) else fail(P, 'SIMPLE-KEY ScannerError although no required key went stale', nkeys=nkeys)
    except Exception as e:
        not_a_finding(e)
        return fail(P, 'simple-key ' + exc_sig(e), nkeys=nkeys)
    reach()
    if ntoks == 0:
        return 'ok' if more else fail(P, 'SIMPLE-KEY an empty queue does not ask for more tokens', nkeys=nkeys)
    if must_raise:
        return fail(P, 'SIMPLE-KEY a stale required key was dropped silently', nkeys=nkeys)
    left = ld.possible_simple_keys
    for lvl, key in left.items():
        if key.line != line or index - key.index > 1024:
            return fail(P, 'SIMPLE-KEY a candidate older than one line / 1024 characters survives (look-ahead is unbounded)', nkeys=nkeys)
        if before.get(lvl) is not key:
            return fail(P, 'SIMPLE-KEY table corrupted', nkeys=nkeys)
    want_left = set()
    if nkeys >= 1 and not stale0:
        want_left.add(0)
    if nkeys >= 2 and not stale1:
        want_left.add(1)
    if set(left) != want_left:
        return fail(P, 'SIMPLE-KEY a live candidate was dropped', nkeys=nkeys)
    head_may_be_key = any(key.token_number == taken for key in left.values()) and \
        all(key.token_number >= taken for key in left.values())
    lowest = min([key.token_number for key in left.values()]) if left else None
    if bool(more) != (lowest == taken):
        return fail(P, 'SIMPLE-KEY need_more_tokens() disagrees with "the head of the queue may still become a key"', nkeys=nkeys)
    return 'ok'


def text_jobs(fn, tier, prefix=''):
    L = 2 if tier == 'quick' else 3
    js = [Job(prefix + 'text/empty', fn, [lambda s: len(s) == 0], budget=20, bounds='the empty input')]
    for name, lo, hi in FIRST:
        js.append(Job(prefix + 'text/' + name, fn,
                      [lambda s, _lo=lo, _hi=hi: 1 <= len(s) <= L and _lo <= ord(s[0]) < _hi],
                      budget=200 if tier == 'quick' else 1500,
                      bounds='len(s)<=%d, all code points, s[0] in U+%04X..U+%04X' % (L, lo, hi - 1)))
    return js


def jobs(tier):
    js = text_jobs(text, tier)
    SN = 4 if tier == 'quick' else 5
    for k in range(len(SOUP)):
        js.append(Job('soup/%r' % SOUP[k], soup,
                      [lambda k0, k1, k2, k3, k4, n, _k=k: k0 == _k and 1 <= n <= SN and 0 <= k1 < 11 and 0 <= k2 < 11 and 0 <= k3 < 11 and 0 <= k4 < 11],
                      budget=200 if tier == 'quick' else 1500, exhaust=(tier == 'quick'),
                      bounds='strings of len<=%d over %r starting with %r' % (SN, SOUP, SOUP[k])))
    for nk in range(3):
        js.append(Job('simple-key-step/%dkeys' % nk, simple_key_step,
                      [lambda line, index, k0_line, k0_index, k0_tok, k0_req, k1_line, k1_index, k1_tok, k1_req, nkeys, taken, ntoks, _n=nk:
                       nkeys == _n and 0 <= ntoks <= 2],
                      budget=200, bounds='%d candidate key(s); line, index, token numbers, tokens_taken: ALL integers (unbounded); queue of 0..2 tokens' % nk))
    for pi in range(len(PREFIXES)):
        js.append(Job('parser-state/%d' % pi, parser_state,
                      [lambda pi, n, k0, k1, k2, _p=pi: pi == _p and 0 <= n <= (2 if tier == 'quick' else 3) and 0 <= k0 < 18 and 0 <= k1 < 18 and 0 <= k2 < 18],
                      budget=200 if tier == 'quick' else 1200,
                      bounds='parser state reached by the prefix %s, then every sequence of <=%d tokens of the 18 kinds' % (' '.join(PREFIXES[pi]) or '(start)', 2 if tier == 'quick' else 3)))
    PN = 3 if tier == 'quick' else 4
    for k in range(18):
        js.append(Job('parser/%s' % KINDS[k], parser_alone,
                      [lambda n, k0, k1, k2, k3, _k=k: 0 <= n <= PN and (k0 == _k) and 0 <= k1 < 18 and 0 <= k2 < 18 and 0 <= k3 < 18],
                      budget=200 if tier == 'quick' else 1500,
                      bounds='token sequences of len<=%d between STREAM-START and STREAM-END, first kind %s' % (PN, KINDS[k])))
    return js
