#!/venv/bin/python
# Standalone replay of a solver counterexample against the unmodified library.
# property=C01 harness=c01.context job=context
import os, sys
os.environ['VERIF_CONCRETE'] = '1'
os.environ.setdefault('VERIF_KF_ACTIVE', 'K1-explicit-tag-nonmember,K2-int-prefix-without-digits,K3-timestamp-fields-out-of-range,K5-merge-source-tag-ignored')
sys.path.insert(0, '/verif'); sys.path.insert(0, '/repo/lib')
sys.setrecursionlimit(20000)
from harness import c01 as m
args = {'tag': 'tag:yaml.org,2002:value', 'kind': 0, 'ctx': 5}
verdict = m.context(**args)
print('verdict:', verdict)
sys.exit(0 if verdict == 'ok' or verdict.startswith('known:') else 1)
