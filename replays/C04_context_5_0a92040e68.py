#!/venv/bin/python
# Standalone replay of a solver counterexample against the unmodified library.
# property=C04 harness=c04.context job=context/5
import os, sys
os.environ['VERIF_CONCRETE'] = '1'
os.environ.setdefault('VERIF_KF_ACTIVE', 'K5-merge-source-tag-ignored')
sys.path.insert(0, '/verif'); sys.path.insert(0, '/repo/lib')
sys.setrecursionlimit(20000)
from harness import c04 as m
args = {'tag': 'tag:yaml.org,2002:python/object/apply:\x00', 'kind': 2, 'ctx': 5}
verdict = m.context(**args)
print('verdict:', verdict)
sys.exit(0 if verdict == 'ok' or verdict.startswith('known:') else 1)
