#!/bin/bash
# Builds /verif/.venv: an overlay on /venv (which holds the editable PyYAML install of
# /repo/lib and pytest) plus crosshair-tool + z3-solver from the offline wheelhouse.
set -e
cd "$(dirname "$0")"
if [ ! -x .venv/bin/python ] || ! .venv/bin/python -c 'import crosshair, z3' 2>/dev/null; then
  rm -rf .venv
  /venv/bin/python -m venv .venv
  echo "import site; site.addsitedir('/venv/lib/python3.12/site-packages')" > .venv/lib/python3.12/site-packages/_overlay.pth
  PIP_NO_INDEX=1 .venv/bin/pip install -q --no-index --find-links /opt/veriftools/wheels crosshair-tool z3-solver >/dev/null
fi
.venv/bin/python -c 'import crosshair, z3, yaml; print("setup ok: crosshair", crosshair.__version__, "z3", z3.get_version_string(), "yaml", yaml.__file__)'
